#!/bin/sh
# MANIFEST.setup_cmd: offline, from files on disk only.  Parses every TLA+ module with SANY and
# byte-compiles nothing (the harness runs with PYTHONDONTWRITEBYTECODE); fails if a module does not parse.
cd "$(dirname "$0")" || exit 2
# scratch directories of runs that ended long ago (a check removes its own; never touch those of checks that may be running)
[ -d .work ] && find .work -mindepth 1 -maxdepth 1 -mmin +720 -exec rm -rf {} + 2>/dev/null
chmod +x check mutcheck 2>/dev/null
fail=0
for m in spec/*.tla; do
  out=$(cd spec && java -cp /opt/veriftools/tla/tla2tools.jar:/opt/veriftools/tla/CommunityModules-deps.jar tla2sany.SANY "$(basename "$m")" 2>&1)
  if echo "$out" | grep -q "Semantic errors\|Parse Error\|Fatal errors\|Could not"; then echo "SANY FAILED: $m"; echo "$out" | tail -20; fail=1; fi
done
/venv/bin/python -c "import numpy, scipy, pandas, copulas; print('python ok', numpy.__version__)" || fail=1
exit $fail
