"""X05 (extra, no listed property)  The admission gate of the multivariate fits (copulas.utils.check_valid_values) as a pipeline
(spec/InputGate.tla).

TLC checks the design (the pipeline in the order of the code computes the decision function, refuses with one of three ValueErrors only,
lets no NaN into the body, never applies the NaN test to a table the type test has not admitted) and must refute OnlyValueError /
NanAfterDtype on the re-ordered pipeline `nanfirst` (non-vacuity).  Every terminal state TLC emits (request, verdict) is executed on the
real decorator - wrapped round a probe method, and as it sits on GaussianMultivariate.fit and VineCopula.fit - and the observed outcome
(which exception with which message / body entered with the original argument) is compared; after a refusal the model must be as it was
(unfitted, sample raises NotFittedError) and the argument untouched.
"""
import numpy as np
import pandas as pd

from .. import tlc as T

LEVEL = 'model_checking'
CFG = 'SPECIFICATION Spec\nCONSTANTS\n  Order = "%s"\n%s\nCHECK_DEADLOCK FALSE\n'
PROPS = ('INVARIANT TypeOK\nINVARIANT Decides\nINVARIANT OnlyValueError\nINVARIANT BodyOnlyIfAdmissible\nINVARIANT NanAfterDtype\n'
         'INVARIANT Bounded\nPROPERTY VerdictStable')
MESSAGES = {'empty': 'Your dataset is empty.', 'non-numerical': 'There are non-numerical values in your data.',
            'nan': 'There are nan values in your data.'}


def build(req, seed, variant):
    """the table of a request; `variant` varies what the specification leaves open (number of columns, where the NaN sits, which column is the odd one)"""
    rng = np.random.RandomState(seed * 7919 + variant)
    ncol = 2 + variant % 3
    nrow = {'none': 0, 'one': 1, 'many': 40 + 10 * variant}[req['rows']]
    d = req['d']
    base = rng.normal(size=(nrow, ncol)) + rng.normal(size=(nrow, 1))
    if d in ('float64', 'float32'):
        a = base.astype(d)
        if req['n'] != 'clean':
            i, j = rng.randint(nrow), rng.randint(ncol)
            if variant % 2 and nrow > 1:
                i = nrow - 1                        # the last cell of the table
                j = ncol - 1
            a[i, j] = np.nan if req['n'] == 'nan' else (np.inf if variant % 2 else -np.inf)
    elif d in ('int64', 'uint8'):
        a = (np.abs(base) * 10).astype(d)
    elif d == 'bool':
        a = base > 0
    elif d == 'str':
        a = np.array([['%.3f' % v for v in row] for row in base], dtype=str).reshape(nrow, ncol)
    elif d == 'object':
        a = base.astype(object)
        if nrow and variant % 2:
            a[rng.randint(nrow), rng.randint(ncol)] = 'x'        # otherwise: numbers held in an object array
        if req['n'] == 'nan':
            a[rng.randint(nrow), 0] = None if variant % 4 < 2 else np.nan
    else:
        a = base
    if req['c'] == 'ndarray':
        return a
    cols = ['c%d' % k for k in range(ncol)][::-1]
    if d == 'mixed':
        df = pd.DataFrame(base, columns=cols)
        odd = cols[variant % ncol]
        df[odd] = pd.Series(['v%d' % k for k in range(nrow)], index=df.index, dtype=object)
        if req['n'] == 'nan':
            other = cols[(variant + 1) % ncol]
            df.loc[rng.randint(nrow), other] = np.nan
            if variant % 2:
                df.loc[rng.randint(nrow), odd] = None
        return df
    if d == 'datetime':
        return pd.DataFrame({c: pd.to_datetime('2020-01-01') + pd.to_timedelta(np.arange(nrow) * (k + 1), unit='D') for k, c in enumerate(cols)},
                            index=range(nrow))
    if d == 'object':
        return pd.DataFrame(a, columns=cols, dtype=object)
    return pd.DataFrame(a, columns=cols)


def snapshot(X):
    if isinstance(X, pd.DataFrame):
        return (list(X.columns), [str(t) for t in X.dtypes], X.to_numpy().tolist().__repr__(), list(X.index))
    return (str(X.dtype), X.shape, X.tolist().__repr__())


def outcome(call, X):
    """-> (verdict, detail)"""
    try:
        got = call(X)
    except ValueError as ex:
        msg = str(ex)
        for k, m in MESSAGES.items():
            if msg == m:
                return k, None
        return 'ValueError-other', msg[:120]
    except Exception as ex:     # noqa
        return type(ex).__name__, str(ex)[:120]
    return 'pass', got


def run(ctx):
    from copulas.errors import NotFittedError
    from copulas.multivariate import GaussianMultivariate, VineCopula
    from copulas.utils import check_valid_values
    quick = ctx.tier == 'quick'
    ctx.rule = ('extra coverage, not a listed property: TLC checks spec/InputGate.tla (the pipeline in the order of the code: Decides, OnlyValueError, '
                'BodyOnlyIfAdmissible, NanAfterDtype, Bounded, VerdictStable hold; the re-ordered pipeline refutes OnlyValueError) and emits every terminal '
                'state; each request is built as a real table in several variants (columns, position of the NaN / the odd column) and given to the real '
                'decorator round a probe method and to GaussianMultivariate.fit / VineCopula.fit; verdict, message, identity of the argument the body '
                'receives, state of the model after a refusal and the argument itself are compared.  distinct by content')
    ctx.assumptions = ['tables are built by the harness from the request classes of the specification; NaT / pd.NA / complex tables are outside its alphabet',
                       'real fits are executed for refusals and for clean float64 / int64 tables with many rows; the other admissible requests go to the probe method only']
    ctx.tlc('InputGate: pipeline in the order of the code', 'InputGate', CFG % ('code', PROPS), timeout=600)
    r = ctx.tlc('InputGate: re-ordered pipeline must be refuted', 'InputGate', CFG % ('nanfirst', 'INVARIANT OnlyValueError'), must_hold=False, timeout=600)
    if r.ok:
        raise T.TlcError('InputGate: the re-ordered pipeline is not refuted (vacuous model?)')
    ctx.extra['refuted_on_the_reordered_pipeline'] = r.violated
    r = ctx.tlc('InputGate.gen', 'InputGate', CFG % ('code', 'INVARIANT Emit'), workers=1, timeout=600)
    reqs = {}
    for t in r.tagged('GATE'):
        reqs[repr(sorted(t[0].items()))] = (t[0], t[1])
    if len(reqs) < 30:
        raise T.TlcError('InputGate.gen emitted %d requests' % len(reqs))

    class Probe:
        fitted = False

        @check_valid_values
        def fit(self, X, flag=None):
            self.seen = X
            self.flag = flag
            return 'body'

    variants = range(4 if quick else 16)
    verdicts = {}
    for key in sorted(reqs):
        req, want = reqs[key]
        for v in variants:
            X = build(req, ctx.seed, v)
            before = snapshot(X)
            desc = '%s|%s|%s|%s' % (req['c'], req['rows'], req['d'], req['n'])
            ctx.case(desc + '|v%d' % v, nontrivial=want != 'pass' or req['rows'] == 'many')
            # 1. the decorator round a probe method
            p = Probe()
            got, det = outcome(lambda Z: p.fit(Z, flag=v), X)
            verdicts[got] = verdicts.get(got, 0) + 1
            if got != want:
                ctx.violation('X05|probe|%s|expected-%s-got-%s' % (desc, want, got),
                              'the specification decides %s for this table, the decorator answered %s (%s)' % (want, got, det), {'request': req, 'variant': v})
                continue
            if want == 'pass' and (p.seen is not X or p.flag != v or det != 'body'):
                ctx.violation('X05|probe|%s|body-arguments' % desc, 'the body did not receive the original argument / keyword / its result was not returned',
                              {'request': req, 'variant': v})
            if snapshot(X) != before:
                ctx.violation('X05|probe|%s|argument-modified' % desc, 'the gate modified its argument', {'request': req, 'variant': v})
            # 2. the decorator where it sits
            real = want != 'pass' or (req['rows'] == 'many' and req['d'] in ('float64', 'int64') and req['n'] == 'clean')
            if not real or (v >= 2 and want == 'pass'):
                continue
            for name, make in (('GaussianMultivariate', GaussianMultivariate), ('VineCopula', lambda: VineCopula('center' if v % 2 else 'regular'))):
                if name == 'VineCopula' and want == 'pass' and (v or req['d'] != 'float64' or req['c'] != 'frame'):     # the vine documents DataFrame input only
                    continue
                m = make()
                got, det = outcome(lambda Z: m.fit(Z), X)
                if got != want:
                    ctx.violation('X05|%s|%s|expected-%s-got-%s' % (name, desc, want, got),
                                  '%s.fit: the specification decides %s, observed %s (%s)' % (name, want, got, det), {'request': req, 'variant': v})
                    continue
                if snapshot(X) != before:
                    ctx.violation('X05|%s|%s|argument-modified' % (name, desc), 'fit modified its argument', {'request': req, 'variant': v})
                if want == 'pass':
                    if not m.fitted:
                        ctx.violation('X05|%s|%s|not-fitted-after-pass' % (name, desc), 'fit returned and the model is not fitted', {'request': req, 'variant': v})
                    continue
                ok = not m.fitted
                try:
                    m.sample(3)
                    ok = False
                except NotFittedError:
                    pass
                except Exception:       # noqa
                    ok = False
                if not ok:
                    ctx.violation('X05|%s|%s|state-after-refusal' % (name, desc), 'after the refusal the model is not an unfitted model',
                                  {'request': req, 'variant': v})
    ctx.extra['requests'] = len(reqs)
    ctx.extra['verdicts_observed_on_the_probe'] = verdicts
    ctx.sample({'request': reqs[sorted(reqs)[0]][0], 'verdict': reqs[sorted(reqs)[0]][1]})
    ctx.traces += len(reqs)
    ctx.exhaustive = True
