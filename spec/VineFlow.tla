-------------------------------- MODULE VineFlow --------------------------------
(***************************************************************************)
(* C17: the data flow of a fitted vine as a term graph.                      *)
(*                                                                           *)
(* Every array the fit produces is a term:                                   *)
(*    u(v)          marginal CDF column of variable v                        *)
(*    h(e, v)       conditional CDF attached to edge e for its conditioned   *)
(*                  variable v  (e.U[0] for v = e.L, e.U[1] for v = e.R)      *)
(*    cop(e)        select_copula(in(e, e.L), in(e, e.R))                     *)
(* The inputs of an edge of tree k >= 2 are, for each of its two conditioned  *)
(* variables v, the term h(p, v) of the parent p whose conditioned pair       *)
(* contains v.  The module states which logged array must be which term; the  *)
(* log carries, for every array, the number of its equivalence class (equal   *)
(* up to 1e-9), so TLC compares integers.                                     *)
(*                                                                           *)
(* log record: [n, vtype, trees, ucols, lik, sample, err]; an edge is         *)
(*   [L, R, D, pa, inL, inR,      -- classes of the arrays actually passed to select_copula   *)
(*    U0, U1,                     -- classes of the stored pseudo-observations  *)
(*    cop, selcop,                -- class of (family, theta) stored / returned by select_copula(inputs) *)
(*    h0, h1,                     -- classes of the h-functions of `cop` recomputed from the inputs *)
(*    inside]                     -- stored pseudo-observations strictly inside (0,1)                  *)
(***************************************************************************)
EXTENDS Vine, Json, IOUtils, TLCExt

FLog == JsonDeserialize(IOEnv.TRACE_FILE)

\* the stored conditional of variable v at edge e (class id), or -1 if v is not conditioned at e
RowFor(e, v) == IF e.L = v THEN e.U0 ELSE IF e.R = v THEN e.U1 ELSE -1
EVars(e) == {e.L, e.R} \cup {e.D[i] : i \in DOMAIN e.D}

\* the term that must be the input of edge i of tree k for its conditioned variable v
ExpectedInput(r, k, i, v) ==
  IF k = 1 THEN r.ucols[v + 1]
  ELSE LET e == r.trees[k][i]
           p1 == r.trees[k-1][e.pa[1]]
           p2 == r.trees[k-1][e.pa[2]]
       IN IF v \in {p1.L, p1.R} /\ v \notin EVars(p2) THEN RowFor(p1, v)
          ELSE IF v \in {p2.L, p2.R} /\ v \notin EVars(p1) THEN RowFor(p2, v)
          ELSE -1

EdgeProblems(r, k, i) ==
  LET e == r.trees[k][i]
      xl == ExpectedInput(r, k, i, e.L)
      xr == ExpectedInput(r, k, i, e.R)
  IN
  \* the pair copulas are exchangeable, so the order in which the two inputs are handed to select_copula is
  \* immaterial - provided the stored pseudo-observations are labelled consistently: U[0] must be the
  \* conditional CDF of the edge's L variable, U[1] that of its R variable.
  (IF e.inL = xl /\ e.inR = xr
   THEN (IF e.U0 # e.h0 \/ e.U1 # e.h1 THEN <<"pseudo-observations-are-not-the-h-functions">> ELSE <<>>)
   ELSE IF e.inL = xr /\ e.inR = xl
   THEN (IF e.U0 # e.h1 \/ e.U1 # e.h0 THEN <<"pseudo-observations-attached-to-the-wrong-variable">> ELSE <<>>)
   ELSE <<"input-is-not-the-conditional-of-its-variable">>) \o
  (IF e.cop # e.selcop THEN <<"pair-copula-differs-from-select_copula">> ELSE <<>>) \o
  (IF ~e.inside THEN <<"pseudo-observations-not-inside-unit-interval">> ELSE <<>>)

WellFormedFlow(r) ==
  \A k \in DOMAIN r.trees : \A i \in DOMAIN r.trees[k] :
     k >= 2 => r.trees[k][i].pa[1] \in DOMAIN r.trees[k-1] /\ r.trees[k][i].pa[2] \in DOMAIN r.trees[k-1]

FlowProblems(r) ==
  IF r.err # "" THEN <<<<0, 0, "fit-raised">>>>
  ELSE IF ~WellFormedFlow(r) THEN <<<<0, 0, "malformed-structure">>>>
  ELSE LET per == [k \in DOMAIN r.trees |->
                     [i \in DOMAIN r.trees[k] |-> [j \in DOMAIN EdgeProblems(r, k, i) |-> <<k, i, EdgeProblems(r, k, i)[j]>>]]]
           RECURSIVE Cat(_, _)
           Cat(s, n) == IF n = 0 THEN <<>> ELSE Cat(s, n - 1) \o s[n]
           flat == Cat([k \in DOMAIN per |-> Cat(per[k], Len(per[k]))], Len(per))
       IN flat \o
          (IF \E q \in DOMAIN r.lik : r.lik[q].actual # r.lik[q].expected THEN <<<<0, 0, "likelihood-is-not-the-sum-of-log-pair-densities">>>> ELSE <<>>) \o
          (IF \E q \in DOMAIN r.lik : r.lik[q].actual # r.lik[q].again THEN <<<<0, 0, "likelihood-not-deterministic">>>> ELSE <<>>) \o
          (IF r.sample # "" THEN <<<<0, 0, r.sample>>>> ELSE <<>>)

TraceChecked == PrintT(<<"VERDICT", SelectSeq([i \in 1..Len(FLog) |-> <<i, FlowProblems(FLog[i])>>], LAMBDA p : p[2] # <<>>)>>)
=============================================================================
