"""C11  select_copula returns a calibrated candidate and recovers the true family."""
import json
import math
import warnings
from multiprocessing import Pool

import numpy as np

from .. import accept as A
from .C10 import frank_limit, frank_tau, get_cases, given_cases, pseudo_obs, _bucket

LEVEL = 'exploration'


def _check(case):
    from copulas.bivariate import Bivariate, select_copula
    X = pseudo_obs(case)
    s, d1, d2 = case['s'], case['d1'], case['d2']
    if d1 == 0 or d2 == 0:
        return []
    exp_tau = s / math.sqrt(d1 * d2)
    if abs(abs(exp_tau) - 1.0) < 1e-12:
        # perfectly (anti-)monotone columns: the calibration clauses are those of C10 (theta = inf or astronomically large); what
        # C11 itself promises still holds - an instance of one of the three families comes back, Frank for tau = -1, carrying the
        # Kendall tau, and the same one on a second call
        try:
            c1 = select_copula(X.copy())
            c2 = select_copula(X.copy())
        except Exception as ex:
            return [('raised-' + type(ex).__name__, 'tau=%r' % exp_tau)]
        probs = []
        fam = getattr(getattr(c1, 'copula_type', None), 'name', None)
        if fam not in ('FRANK', 'CLAYTON', 'GUMBEL') or (exp_tau < 0 and fam != 'FRANK'):
            probs.append(('family-not-a-candidate', 'returned %s at tau=%r' % (fam, exp_tau)))
        elif abs(float(c1.tau) - exp_tau) > 1e-12:
            probs.append(('tau-is-not-kendall-tau', 'got %r expected %r' % (float(c1.tau), exp_tau)))
        elif c2.copula_type != c1.copula_type:
            probs.append(('not-deterministic:second-call', '%s vs %s' % (fam, c2.copula_type.name)))
        return probs
    probs = []
    try:
        np.random.seed(1)
        c1 = select_copula(X.copy())
    except Exception as ex:
        return [('raised-' + type(ex).__name__, 'tau=%r' % exp_tau)]
    fam = getattr(getattr(c1, 'copula_type', None), 'name', type(c1).__name__)
    if fam not in case['cands']:
        probs.append(('family-not-a-candidate', 'returned %s, candidates %s, tau=%r' % (fam, case['cands'], exp_tau)))
    if fam not in ('FRANK', 'CLAYTON', 'GUMBEL') or c1.tau is None or c1.theta is None:
        return probs or [('family-not-a-candidate', 'returned %s without tau / theta, tau=%r' % (fam, exp_tau))]
    if abs(float(c1.tau) - exp_tau) > 1e-12:
        probs.append(('tau-is-not-kendall-tau', 'got %r expected %r' % (float(c1.tau), exp_tau)))
    th = float(c1.theta)
    if fam == 'CLAYTON':
        et = 2 * exp_tau / (1 - exp_tau)
        ok = abs(th - et) <= 1e-9 * max(1, abs(et))
    elif fam == 'GUMBEL':
        et = 1 / (1 - exp_tau)
        ok = abs(th - et) <= 1e-9 * max(1, abs(et))
    else:
        et = None
        ok = th != 0 and not math.isnan(th) and abs(frank_tau(th) - exp_tau) <= frank_limit(exp_tau)
    if not ok:
        probs.append(('theta-is-not-the-family-calibration', '%s theta=%r expected %r tau=%r' % (fam, th, et, exp_tau)))
    # determinism: another global RNG state, a copy, permuted rows, the deprecated alias
    np.random.seed(987)
    np.random.random(5)
    perm = np.random.RandomState(3).permutation(len(X))
    with warnings.catch_warnings():
        warnings.simplefilter('ignore')
        others = [select_copula(X.copy()), select_copula(X[perm].copy()), Bivariate.select_copula(X.copy())]
    # a result is an object of its own: later selections on other data leave it as it was
    before = (c1.copula_type, float(c1.tau), float(c1.theta))
    rs2 = np.random.RandomState(11)
    other = np.sort(rs2.uniform(0.02, 0.98, size=(24, 2)), axis=0)         # concordant columns: positive tau, every family a candidate
    other[[3, 9, 15], 1] = other[[9, 15, 3], 1]
    try:
        c_other = select_copula(other)
        if c_other is c1 or any(c is c1 for c in others):
            probs.append(('result-object-shared-between-calls', fam))
        if (c1.copula_type, float(c1.tau), float(c1.theta)) != before:
            probs.append(('earlier-result-changed-by-a-later-call', '%s tau/theta %r -> %r' % (fam, before[1:], (float(c1.tau), float(c1.theta)))))
    except Exception as ex:
        probs.append(('raised-' + type(ex).__name__, 'second data set'))
    # a work buffer: the same array object is selected on, reflected in place (second column -> 1 - second column: Kendall's tau
    # changes sign) and selected on again - the answer is that of the data the array holds now
    try:
        Xr = X.copy()
        Xr[:, 1] = 1.0 - Xr[:, 1]
        fresh = select_copula(Xr.copy())
        buf = X.copy()
        select_copula(buf)
        buf[:, 1] = 1.0 - buf[:, 1]
        again = select_copula(buf)
        if again.copula_type != fresh.copula_type or abs(float(again.tau) - float(fresh.tau)) > 1e-12 or \
                not (float(again.theta) == float(fresh.theta) or abs(float(again.theta) - float(fresh.theta)) <= 1e-9 * max(1.0, abs(float(fresh.theta)))):
            probs.append(('not-deterministic:array-overwritten-in-place', '%s tau %r theta %r instead of %s tau %r theta %r' %
                          (again.copula_type.name, float(again.tau), float(again.theta), fresh.copula_type.name, float(fresh.tau), float(fresh.theta))))
    except Exception as ex:
        probs.append(('raised-' + type(ex).__name__, 'reflected data'))
    for name, c in zip(('second-call', 'permuted-rows', 'deprecated-alias'), others):
        if c.copula_type != c1.copula_type or not (float(c.theta) == th or abs(float(c.theta) - th) <= 1e-12 * max(1, abs(th))):
            probs.append(('not-deterministic:' + name, '%s/%r vs %s/%r' % (fam, th, c.copula_type.name, float(c.theta))))
    return probs


def _large(job):
    """more than 5000 rows of weak dependence (the scores of the candidates are close): the choice is still a function of X alone -
    repeated calls under different global generator states agree, and the global generator is left as it was"""
    from copulas.bivariate import select_copula
    fam, tau, seed, n = job
    rs = np.random.RandomState(seed)
    X = np.clip(draw(fam, theta_of(fam, tau), n, rs), 1e-9, 1 - 1e-9)
    probs = []
    seen = set()
    for k in range(6):
        np.random.seed(1000 + k)
        st = np.random.get_state()
        try:
            c = select_copula(X.copy())
        except Exception as ex:
            return [('raised-' + type(ex).__name__, 'n=%d' % n)]
        st2 = np.random.get_state()
        if not (st[0] == st2[0] and np.array_equal(st[1], st2[1]) and st[2:] == st2[2:]):
            probs.append(('global-generator-advanced', 'n=%d call %d' % (n, k)))
        seen.add((c.copula_type.name, float(c.theta)))
    if len(seen) > 1:
        probs.append(('not-deterministic:repeated-calls-on-a-large-sample', '%d different answers for one array of %d rows: %s' % (len(seen), n, sorted(seen)[:3])))
    return sorted(set(probs))


def _neighbours(job):
    """a sequence of data sets whose Kendall taus differ by a few 1e-4 (one more adjacent transposition each), selected one after
    the other in one process: each answer must be the calibration of its own tau, whatever was asked before"""
    from scipy import stats
    from copulas.bivariate import select_copula
    fam, tau, seed, n, steps = job
    rs = np.random.RandomState(seed)
    X = np.clip(draw(fam, theta_of(fam, tau), n, rs), 1e-9, 1 - 1e-9)
    order = np.argsort(X[:, 1])
    probs = []
    for k in range(steps):
        if k:
            a, b = order[(7 * k) % (n - 1)], order[(7 * k) % (n - 1) + 1]
            X[a, 1], X[b, 1] = X[b, 1], X[a, 1]
        exp_tau = float(stats.kendalltau(X[:, 0], X[:, 1])[0])
        try:
            c = select_copula(X.copy())
        except Exception as ex:
            probs.append(('raised-' + type(ex).__name__, 'step %d' % k))
            continue
        name, th = c.copula_type.name, float(c.theta)
        if abs(float(c.tau) - exp_tau) > 1e-12:
            probs.append(('tau-is-not-kendall-tau', 'step %d: got %r expected %r' % (k, float(c.tau), exp_tau)))
        if name == 'CLAYTON':
            ok = abs(th - 2 * exp_tau / (1 - exp_tau)) <= 1e-9 * max(1, abs(th))
        elif name == 'GUMBEL':
            ok = abs(th - 1 / (1 - exp_tau)) <= 1e-9 * max(1, abs(th))
        else:
            ok = th != 0 and not math.isnan(th) and abs(frank_tau(th) - exp_tau) <= frank_limit(exp_tau)
        if not ok:
            probs.append(('theta-is-not-the-family-calibration', 'step %d of a sequence of neighbouring data sets: %s theta=%r tau=%r' % (k, name, th, exp_tau)))
    return probs


# ---- independent samplers of the three families ----------------------------------------------------
def theta_of(fam, tau):
    from scipy.optimize import brentq
    if fam == 'CLAYTON':
        return 2 * tau / (1 - tau)
    if fam == 'GUMBEL':
        return 1 / (1 - tau)
    return brentq(lambda t: frank_tau(t) - tau, 1e-6, 200.0)


def draw(fam, theta, n, rs):
    v = rs.uniform(size=n)
    w = rs.uniform(size=n)
    if fam == 'CLAYTON':
        u = ((w ** (-theta / (1 + theta)) - 1) * v ** (-theta) + 1) ** (-1 / theta)
        return np.column_stack([u, v])
    if fam == 'FRANK':
        e = np.exp(-theta * v)
        u = -np.log1p(w * np.expm1(-theta) / (w + (1 - w) * e) * 1.0) / theta
        u = -1.0 / theta * np.log(1 + w * (np.exp(-theta) - 1) / (w + (1 - w) * e))
        return np.column_stack([u, v])
    a = 1.0 / theta                                    # Gumbel via Marshall-Olkin with a positive stable frailty
    th = rs.uniform(0, np.pi, size=n)
    ex = rs.exponential(size=n)
    S = (np.sin(a * th) / np.sin(th) ** (1 / a)) * (np.sin((1 - a) * th) / ex) ** ((1 - a) / a)
    e1, e2 = rs.exponential(size=n), rs.exponential(size=n)
    return np.column_stack([np.exp(-(e1 / S) ** a), np.exp(-(e2 / S) ** a)])


def _recover(job):
    from copulas.bivariate import select_copula
    fam, tau, seed, n = job
    rs = np.random.RandomState(seed)
    X = np.clip(draw(fam, theta_of(fam, tau), n, rs), 1e-9, 1 - 1e-9)
    if n > 9000 or seed % 4 == 0:
        # a sample is a set of rows: here they arrive sorted by the first column (ascending or descending)
        X = X[np.argsort(X[:, 0], kind='stable')]
        if seed % 2:
            X = X[::-1].copy()
    try:
        return select_copula(X).copula_type.name == fam
    except Exception:
        return False


def run(ctx):
    quick = ctx.tier == 'quick'
    ctx.rule = ('(a) the KendallFit enumeration (all permutations n<=%s, tie cases, random longer columns): TLC computes the admissible '
                'candidate set of select_copula exactly; the real function must return a member carrying the shared Kendall tau and its own '
                'calibration, identically on a second call with another global RNG state, on permuted rows and through the deprecated alias; '
                '(b) recovery: samples of n=3000, 7777, 11003 and 24001 (thorough: also 5000, 12345, 20011, 31013; those above 9000 rows and a quarter of the others arrive sorted by the first column) from Clayton / Frank / Gumbel drawn by independent samplers (conditional inverse, '
                'Marshall-Olkin) at tau 0.3, 0.5, 0.7, %s seeds per cell; TLC (Acceptance) requires >= 70 %% recovered per cell. '
                '(d) samples of 6000 rows (thorough: also 12001) at tau 0.04 / 0.09 selected six times under different global generator states: one answer, generator untouched; an earlier result is not changed by later calls; (c) five sequences of 14 neighbouring data sets (n = 150..400, taus a few 1e-4 apart) selected one after the other in one process: each answer is the calibration of its own tau.  non-trivial = positive tau (more than one candidate); distinct by input') % (('6', '10') if quick else ('7', '40'))
    ctx.assumptions = ['the scoring arithmetic of select_copula is not pinned (any member of the candidate set is accepted)',
                       'recovery samplers are the harness\'s own (not the library\'s)']
    cases = get_cases(ctx, 6 if quick else 7, 4 if quick else 5, given_cases(ctx.seed + 2, 60 if quick else 500))
    # the module of the fourth, parameterless family is imported (a user may have done so): it is not a candidate of select_copula
    import copulas.bivariate.independence  # noqa
    with Pool(16) as pool:
        res = pool.map(_check, cases, chunksize=16)
        ns = 10 if quick else 40
        sizes = (3000, 7777, 11003, 24001) if quick else (3000, 5000, 7777, 12345, 20011, 31013)       # n >= 3000, deliberately not round numbers only
        jobs = [(f, t, ctx.seed * 1000 + 17 * i + j + n, n) for f in ('CLAYTON', 'FRANK', 'GUMBEL') for j, t in enumerate((0.3, 0.5, 0.7))
                for n in sizes for i in range(ns if n < 20000 else max(4, ns // 2))]
        rec = pool.map(_recover, jobs, chunksize=2)
        njobs = [(f, t, ctx.seed * 31 + i, n, 14) for i, (f, t, n) in enumerate((('FRANK', 0.45, 150), ('FRANK', 0.2, 400), ('CLAYTON', 0.5, 150),
                                                                               ('GUMBEL', 0.6, 200), ('FRANK', 0.7, 250)))]
        nres = pool.map(_neighbours, njobs, chunksize=1)
        bjobs = [(f, t, ctx.seed * 17 + i, n) for i, (f, t, n) in enumerate([(f, t, n) for f in ('CLAYTON', 'FRANK', 'GUMBEL') for t in (0.04, 0.09)
                                                                             for n in ((6000,) if quick else (6000, 12001))])]
        bres = pool.map(_large, bjobs, chunksize=1)
    for job, probs in zip(bjobs, bres):
        ctx.case('large|' + json.dumps(job))
        for p, detail in probs:
            ctx.violation('C11|select_copula|%s|large-sample' % p, 'select_copula: %s (%s, %s sample at tau %.2f)' % (p, detail, job[0], job[1]),
                          {'rerun': ['harness.props.C11._large', list(job)]})
    ctx.traces += len(bjobs)
    for job, probs in zip(njobs, nres):
        ctx.case('neighbours|' + json.dumps(job))
        for p, detail in probs:
            ctx.violation('C11|select_copula|%s|neighbour-sequence' % p, 'select_copula: %s (%s family sample, n=%d)' % (detail, job[0], job[3]),
                          {'rerun': ['harness.props.C11._neighbours', list(job)]})
    ctx.traces += len(njobs)
    for case, probs in zip(cases, res):
        ctx.case(json.dumps([case['x'], case['y']]), nontrivial=(case['s'] > 0 and case['d1'] > 0 and case['d2'] > 0))
        for p, detail in probs:
            ctx.violation('C11|select_copula|%s|%s' % (p, _bucket(case)), 'select_copula: %s (%s) on ranks x=%s y=%s' % (p, detail, case['x'], case['y']),
                          dict(case, rerun=['harness.props.C11._check', case]))
    ctx.sample({k: cases[len(cases) // 2][k] for k in ('x', 'y', 's', 'd1', 'd2', 'cands')})
    cells = {}
    for (f, t, _, size), ok in zip(jobs, rec):
        k, n = cells.get((f, t, size), (0, 0))
        cells[(f, t, size)] = (k + int(ok), n + 1)
    records = [A.count('%s@%.1f,n=%d' % (f, t, size), k, n, 70) for (f, t, size), (k, n) in sorted(cells.items())]
    for i in A.evaluate(ctx, 'Acceptance.recovery', records):
        r = records[i]
        ctx.violation('C11|select_copula|family-not-recovered|%s' % r['id'],
                      'generating family recovered in only %d of %d samples (cell %s)' % (r['k'], r['n'], r['id']), r)
    ctx.extra['recovery_cells'] = {r['id']: '%d/%d' % (r['k'], r['n']) for r in records}
    for (f, t, sd, n) in jobs:
        ctx.case('recover|%s|%.1f|%d' % (f, t, sd))
    ctx.traces += len(cases)          # observation tables / samples of the real code judged by TLC
    ctx.exhaustive = False
