------------------------------- MODULE AddonsMC -------------------------------
(* Concrete world for Addons (cfg files cannot hold tuples): the package with one scratch submodule that carries a plain object
   with a nested object, one plain object directly in the package, and entry-point names that hit every branch of
   _get_addon_target: the package itself, new and existing submodules, missing intermediate modules, a foreign base, object paths of
   length 0..2 with existing and missing intermediate attributes. *)
EXTENDS Addons
MC_Modules0 == {<<"copulas">>, <<"copulas", "vt_sub">>}
MC_Objects0 == {<<"copulas", "vt_sub", "obj">>, <<"copulas", "vt_sub", "obj", "inner">>, <<"copulas", "vt_thing">>}
MC_ModPaths == {<<"copulas">>, <<"copulas", "vt_new">>, <<"copulas", "vt_sub">>, <<"copulas", "vt_sub", "vt_new">>,
                <<"copulas", "vt_missing", "x">>, <<"other", "x">>, <<"copulas", "vt_new", "deeper">>, <<"copulas", "vt_thing">>}
MC_ObjPaths == {<<>>, <<"vt_attr">>, <<"obj", "vt_attr">>, <<"obj", "inner">>, <<"nope", "vt_attr">>, <<"obj">>}
=============================================================================
