"""C20  Library calls never modify caller-owned inputs; plots show exactly the data."""
import json
import os
import warnings
from multiprocessing import Pool

import numpy as np
import pandas as pd

from .. import bindings as B
from .. import project as P
from .. import tlc as T

LEVEL = 'model_checking'
CFG = os.path.join(T.SPEC, 'cfg')
warnings.simplefilter('ignore')


# ---------------------------------------------------------------------------------------------
# binding table: entry point -> container forms -> (argument objects, call)
# ---------------------------------------------------------------------------------------------
def _wrap(x, cont):
    """Put array-like content into the requested container form."""
    a = np.array(x, dtype=float)
    if cont in ('ndarray', 'ndarray-edge'):
        return a
    if cont == 'int-ndarray':       # an integer-typed array: nothing may be written back into it, nor may it make the call fail
        return np.array(x).astype(np.int64)
    if cont == 'ro-ndarray':
        a.setflags(write=False)
        return a
    if cont == 'series':
        return pd.Series(a.ravel() if a.ndim == 1 else a[:, 0], name='col')
    if cont == 'dataframe':
        return pd.DataFrame(a if a.ndim == 2 else a.reshape(-1, 1), columns=list('abcdef')[:(a.shape[1] if a.ndim == 2 else 1)])
    if cont == 'list':
        return a.tolist()
    raise KeyError(cont)


def _uni_model(name, d='A'):
    b = B.by_name(name)
    m = b.new('c1', 0)
    b.fit(m, d)
    return m


def entries():
    """name -> (containers, maker).  maker(cont) returns (args: dict name -> object, call: f(args) -> result)."""
    E = {}

    def uni_fit(cls):
        def mk(cont):
            args = {'X': _wrap(B.uni_data('A'), cont)}
            return args, lambda a: (lambda m: (m.fit(a['X']), m.to_dict())[1])(B.by_name(cls).new('c1', 0))
        return mk
    for cls in ('GaussianUnivariate', 'BetaUnivariate', 'GaussianKDE', 'TruncatedGaussian', 'UniformUnivariate',
                'GammaUnivariate', 'StudentTUnivariate', 'LogLaplace'):
        E['%s.fit' % cls] = (('ndarray', 'ro-ndarray', 'series'), uni_fit(cls))

    def tg_tight_fit(cont):
        # explicit bounds that some of the observations violate: the model may do with them what it likes, but not to the caller's object
        from copulas.univariate import TruncatedGaussian
        args = {'X': _wrap(B.uni_data('A'), cont)}
        return args, lambda a: (lambda m: (m.fit(a['X']), m.to_dict())[1])(TruncatedGaussian(minimum=2.0, maximum=8.0))
    E['TruncatedGaussian(2,8).fit'] = (('ndarray', 'series'), tg_tight_fit)

    def sel_tight_fit(cont):
        from copulas.univariate import GaussianUnivariate, TruncatedGaussian, Univariate
        args = {'X': _wrap(B.uni_data('A'), cont)}
        return args, lambda a: (lambda m: (m.fit(a['X']), m.to_dict())[1])(Univariate(candidates=[TruncatedGaussian(minimum=2.0, maximum=8.0), GaussianUnivariate]))
    E['Univariate([TruncatedGaussian(2,8),Gaussian]).fit'] = (('ndarray', 'series'), sel_tight_fit)

    def sel_fit(cont):
        args = {'X': _wrap(B.uni_data('A'), cont)}
        return args, lambda a: (lambda m: (m.fit(a['X']), m.to_dict())[1])(B.by_name('Univariate').new('c1', 0))
    E['Univariate.fit'] = (('ndarray', 'ro-ndarray', 'series'), sel_fit)

    def uni_query(cls, meth):
        def mk(cont):
            m = _uni_model(cls)
            x = np.linspace(0.05, 0.95, 7) if meth == 'percent_point' else np.linspace(0.0, 12.0, 9)
            if cont == 'ndarray-edge':      # values at and beyond the edges of the support / of [0, 1]
                x = np.array([0.0, 1.0, 0.5, 1e-300, 1 - 1e-16]) if meth == 'percent_point' else np.array([-1e6, 0.0, -0.0, 1e-300, 3.0, 1e6, -1e300, 1e300])
            if cont == 'int-ndarray':
                x = np.array([0, 1, 1, 0]) if meth == 'percent_point' else np.arange(0, 13, 2)
            args = {'X': _wrap(x, cont)}
            return args, lambda a: getattr(m, meth)(a['X'])
        return mk
    for cls in ('GaussianUnivariate', 'GaussianKDE', 'BetaUnivariate', 'Univariate'):
        for meth in ('probability_density', 'cumulative_distribution', 'percent_point', 'log_probability_density'):
            if cls == 'GaussianKDE' and meth == 'log_probability_density':
                continue
            E['%s.%s' % (cls, meth)] = (('ndarray', 'ro-ndarray', 'ndarray-edge', 'int-ndarray'), uni_query(cls, meth))

    def sel_uni(cont):
        from copulas.univariate import GaussianUnivariate, GammaUnivariate
        from copulas.univariate.selection import select_univariate
        from copulas.univariate import BetaUnivariate
        # the Beta candidate cannot be fitted to the 0/1 column 'P': failing candidates must not be dropped from the caller's list
        args = {'X': _wrap(B.uni_data('P'), cont), 'candidates': [GaussianUnivariate, BetaUnivariate, GammaUnivariate]}
        return args, lambda a: type(select_univariate(a['X'], a['candidates'])).__name__
    E['select_univariate'] = (('ndarray', 'ro-ndarray'), sel_uni)

    def bi_fit(cls):
        def mk(cont):
            args = {'X': _wrap(B.bi_data('A'), cont)}
            return args, lambda a: (lambda m: (m.fit(a['X']), m.to_dict())[1])(B.by_name(cls).new('c1', 0))
        return mk

    def bi_query(cls, meth):
        def mk(cont):
            m = B.by_name(cls).new('c1', 0)
            m.fit(B.bi_data('A'))
            X = B.BI_X
            if cont == 'ndarray-edge':     # rows on and next to the boundary of the unit square
                e = [0.0, 1e-12, 1e-8, 0.3, 1 - 1e-8, 1 - 1e-12, 1.0]
                X = np.array([[a_, b_] for a_ in e for b_ in e])
            args = {'X': _wrap(X, cont)}
            return args, lambda a: getattr(m, meth)(a['X'])
        return mk

    def bi_ppf(cls):
        def mk(cont):
            m = B.by_name(cls).new('c1', 0)
            m.fit(B.bi_data('A'))
            y, v = B.BI_Y, B.BI_V
            if cont == 'ndarray-edge':
                y, v = np.array([1e-4, 0.5, 1 - 1e-4, 0.5, 0.5]), np.array([0.5, 1e-4, 0.5, 1 - 1e-4, 0.5])
            args = {'y': _wrap(y, cont), 'V': _wrap(v, cont)}
            return args, lambda a: m.percent_point(a['y'], a['V'])
        return mk
    for cls in ('Clayton', 'Frank', 'Gumbel'):
        E['%s.fit' % cls] = (('ndarray', 'ro-ndarray'), bi_fit(cls))
        for meth in ('probability_density', 'cumulative_distribution', 'partial_derivative'):
            E['%s.%s' % (cls, meth)] = (('ndarray', 'ro-ndarray', 'ndarray-edge'), bi_query(cls, meth))
        E['%s.percent_point' % cls] = (('ndarray', 'ro-ndarray', 'ndarray-edge'), bi_ppf(cls))

    def bi_fit_hair_outside(cls):
        # pseudo-observations of which two lie a hair outside [0, 1]: whether the table is accepted is C10's business, but whatever the
        # copula does with it, it does not do it to the caller's array
        def mk(cont):
            import copulas.bivariate as cb
            X = B.bi_data('A').copy()
            X[3, 0] = 1.0 + 5e-8
            X[7, 1] = -5e-8
            args = {'X': _wrap(X, cont)}
            return args, lambda a: (lambda m: (m.fit(a['X']), m.to_dict())[1])(getattr(cb, cls)())
        return mk
    for cls in ('Clayton', 'Frank', 'Gumbel'):
        E['%s.fit(hair-outside)' % cls] = (('ndarray',), bi_fit_hair_outside(cls))

    def tree_lik(vt, level):
        # the trees of a fitted vine are public objects with a public get_likelihood: level k is handed the matrix level k-1 returned
        def mk(cont):
            b = B.by_name('VineCopula_%s4' % vt)
            m = b.new('c1', 0)
            b.fit(m, 'A')
            M = np.array([[0.3, 0.55, 0.4, 0.7]])
            for t in m.trees[:level]:
                M = np.array(t.get_likelihood(M)[1], dtype=float)
            args = {'M': _wrap(M, cont)}
            return args, lambda a: m.trees[level].get_likelihood(a['M'])
        return mk
    for vt in ('center', 'direct', 'regular'):
        for level in (0, 1, 2):
            E['Tree(%s,level %d).get_likelihood' % (vt, level + 1)] = (('ndarray', 'ro-ndarray'), tree_lik(vt, level))

    def sel_cop(cont):
        from copulas.bivariate import select_copula
        args = {'X': _wrap(B.bi_data('A'), cont)}
        return args, lambda a: select_copula(a['X']).to_dict()
    E['select_copula'] = (('ndarray', 'ro-ndarray'), sel_cop)

    def g_fit(cont):
        from copulas.multivariate import GaussianMultivariate
        from copulas.univariate import GaussianUnivariate, UniformUnivariate
        df = B.mv_data('A', 3)
        X = df if cont == 'dataframe' else _wrap(df.to_numpy(), cont)
        dist = {'a': GaussianUnivariate, 'b': 'copulas.univariate.gamma.GammaUnivariate', 'c': UniformUnivariate()}
        args = {'X': X, 'distribution': dist}
        return args, lambda a: (lambda m: (m.fit(a['X']), m.to_dict())[1])(GaussianMultivariate(distribution=a['distribution']))
    E['GaussianMultivariate.fit'] = (('dataframe', 'ndarray', 'ro-ndarray'), g_fit)

    def g_fit_int(cont):
        # a table with integer-typed columns (counts, ages): the caller's frame keeps its dtypes
        from copulas.multivariate import GaussianMultivariate
        from copulas.univariate import GaussianUnivariate
        df = B.mv_data('A', 3).copy()
        df['a'] = (df['a'] * 10).round().astype('int64')
        df['c'] = (df['c'] * 4).round().astype('int32')
        X = df if cont == 'dataframe' else _wrap(np.rint(df.to_numpy() * 3).astype(np.int64), cont)
        args = {'X': X}
        return args, lambda a: (lambda m: (m.fit(a['X']), m.to_dict())[1])(GaussianMultivariate(distribution=GaussianUnivariate))
    E['GaussianMultivariate.fit(integer columns)'] = (('dataframe', 'ndarray'), g_fit_int)

    def kde_weights_fit(cont):
        # the array of weights handed to the constructor is the caller's as well
        from copulas.univariate import GaussianKDE
        x = B.uni_data('A')
        w = np.linspace(0.5, 3.0, len(x))
        args = {'X': _wrap(x, cont), 'weights': w}
        return args, lambda a: (lambda m: (m.fit(a['X']), m.probability_density(np.linspace(0.0, 12.0, 7)), m.to_dict())[1:])(GaussianKDE(weights=a['weights']))
    E['GaussianKDE(weights).fit'] = (('ndarray', 'series'), kde_weights_fit)

    def g_fit_fallback(cont):
        # a per-column configuration in which two of the configured distributions cannot be fitted (the Gaussian fallback runs)
        from copulas.multivariate import GaussianMultivariate
        from copulas.univariate import GaussianUnivariate
        from ..stubs import PickyGaussian
        df = B.mv_data('A', 3).copy()
        df['a'] = df['a'] + 3000.0
        df['c'] = df['c'] + 5000.0
        X = df if cont == 'dataframe' else _wrap(df.to_numpy(), cont)
        keys = list(df.columns) if cont == 'dataframe' else [0, 1, 2]
        dist = {keys[0]: PickyGaussian, keys[1]: GaussianUnivariate, keys[2]: PickyGaussian()}
        args = {'X': X, 'distribution': dist}
        return args, lambda a: (lambda m: (m.fit(a['X']), [type(u).__name__ for u in m.univariates], m.to_dict())[1:])(GaussianMultivariate(distribution=a['distribution']))
    E['GaussianMultivariate.fit(fallback)'] = (('dataframe', 'ndarray'), g_fit_fallback)

    def g_query(meth):
        def mk(cont):
            b = B.by_name('GaussianMultivariate2')
            m = b.new('c1', 0)
            b.fit(m, 'A')
            pr = B.mv_probe(2)
            X = pr if cont == 'dataframe' else (pr.iloc[0] if cont == 'series' else _wrap(pr.to_numpy(), cont))
            args = {'X': X}
            return args, lambda a: getattr(m, meth)(a['X'])
        return mk
    for meth in ('probability_density', 'cumulative_distribution', 'log_probability_density'):
        E['GaussianMultivariate.%s' % meth] = (('dataframe', 'series', 'ndarray', 'ro-ndarray'), g_query(meth))

    def g_cond(cont):
        b = B.by_name('GaussianMultivariate3')
        m = b.new('c1', 0)
        b.fit(m, 'A')
        cond = {'b': 0.25, 'c': -0.5}
        if cont.endswith('+foreign'):        # a scenario that also names a quantity this model has no column for (ignored by the sampler)
            cond = {'zz': 3.0, 'b': 0.25, 'c': -0.5}
        args = {'conditions': cond if cont.startswith('dict') else pd.Series(cond)}

        def call(a):
            m.set_random_state(5)
            return m.sample(4, conditions=a['conditions'])
        return args, call
    E['GaussianMultivariate.sample(conditions)'] = (('dict', 'series', 'dict+foreign', 'series+foreign'), g_cond)

    def v_fit(vt):
        def mk(cont):
            from copulas.multivariate import VineCopula
            args = {'X': B.mv_data('A', 3)}

            def call(a):
                B.poison([(j, j) for j in range(1, 4)], 0.0)
                m = VineCopula(vt)
                m.fit(a['X'])
                return [[(e.L, e.R, sorted(e.D), str(e.name), e.theta) for e in t.edges] for t in m.trees]
            return args, call
        return mk

    def v_lik(vt):
        def mk(cont):
            b = B.by_name('VineCopula_%s4' % vt)
            m = b.new('c1', 0)
            b.fit(m, 'A')
            args = {'u': _wrap(np.array([[0.3, 0.55, 0.4, 0.7]]), cont)}
            return args, lambda a: m.get_likelihood(a['u'])
        return mk
    for vt in ('center', 'direct', 'regular'):
        E['VineCopula(%s).fit' % vt] = (('dataframe',), v_fit(vt))
        E['VineCopula(%s).get_likelihood' % vt] = (('ndarray', 'ro-ndarray'), v_lik(vt))

    def root(alg):
        def mk(cont):
            from copulas import optimize
            lo = np.array([-1.0, 0.0, -5.0])
            hi = np.array([2.0, 4.0, 3.0])
            root_at = np.array([0.3, 1.7, -2.2])
            args = {'xmin': _wrap(lo, cont), 'xmax': _wrap(hi, cont)}
            return args, lambda a: getattr(optimize, alg)(lambda x: (x - root_at) ** 3, a['xmin'], a['xmax'])
        return mk
    E['optimize.bisect'] = (('ndarray',), root('bisect'))
    E['optimize.chandrupatla'] = (('ndarray', 'ro-ndarray'), root('chandrupatla'))

    def kde_ppf_bisect(cont):
        m = _uni_model('GaussianKDE')
        args = {'U': _wrap(np.array([0.1, 0.5, 0.9]), cont)}
        return args, lambda a: m.percent_point(a['U'], method='bisect')
    E['GaussianKDE.percent_point(bisect)'] = (('ndarray', 'ro-ndarray'), kde_ppf_bisect)

    def tree_fit(vt):
        def mk(cont):
            from copulas.multivariate.tree import get_tree
            df = B.mv_data('A', 4)
            b = B.by_name('VineCopula_%s4' % vt)
            m = b.new('c1', 0)
            b.fit(m, 'A')
            tau = df.corr(method='kendall').to_numpy().copy()
            if cont == 'ro-ndarray':
                tau.setflags(write=False)
            args = {'tau_matrix': tau, 'u_matrix': m.u_matrix.copy()}

            def call(a):
                t = get_tree(vt)
                t.fit(0, 4, a['tau_matrix'], a['u_matrix'])
                return [(e.L, e.R, str(e.name), e.theta) for e in t.edges]
            return args, call
        return mk
    for vt in ('center', 'direct', 'regular'):
        E['Tree(%s).fit' % vt] = (('ndarray',), tree_fit(vt))

    def viz(fn, ncol, given):
        def mk(cont):
            from copulas import visualization as V
            rs = np.random.RandomState(3)
            cols = list('abcd')[:ncol]
            real = pd.DataFrame(rs.normal(size=(6, ncol)), columns=cols)
            synth = pd.DataFrame(rs.normal(size=(5, ncol)), columns=cols)
            args = {'real': real}
            if fn.startswith('compare'):
                args['synth'] = synth
            if given:
                args['columns'] = cols[:int(fn[-2])]

            def call(a):
                f = getattr(V, fn)
                kw = {'columns': a['columns']} if given else {}
                fig = f(a['real'], a['synth'], **kw) if fn.startswith('compare') else f(a['real'], **kw)
                return _figure_points(fig)
            return args, call
        return mk
    for fn, k in (('scatter_2d', 2), ('compare_2d', 2), ('scatter_3d', 3), ('compare_3d', 3)):
        E['visualization.%s' % fn] = (('dataframe',), viz(fn, k, False))
        E['visualization.%s(columns)' % fn] = (('dataframe+list',), viz(fn, k + 1, True))

    def ds(cont):
        from copulas import datasets as D
        args = {'size': 7, 'seed': 3}
        return args, lambda a: D.sample_trivariate_xyz(a['size'], a['seed'])
    E['datasets.sample_trivariate_xyz'] = (('ints',), ds)
    return E


def _figure_points(fig):
    pts = []
    for t in fig.data:
        label = t.name
        xs, ys = list(t.x), list(t.y)
        zs = list(t.z) if getattr(t, 'z', None) is not None else None
        for i in range(len(xs)):
            pts.append([label, _num(xs[i]), _num(ys[i])] + ([_num(zs[i])] if zs is not None else []))
    return pts


def _num(v):
    """a coordinate read back from a figure: integers stay exact integers"""
    if isinstance(v, (int, np.integer)) and not isinstance(v, bool):
        return int(v)
    return float(v)


BIG = 1 << 60           # a 64-bit identifier / nanosecond timestamp: not representable as a double


def _own_work(job):
    ep, cont, ncalls = job
    cont_list, maker = entries()[ep]
    classes = {}

    def cid(fp):
        return classes.setdefault(fp, len(classes) + 1)
    recs = []
    try:
        args, call = maker(cont)
    except Exception as ex:
        return [{'ep': ep, 'cont': cont, 'call': 1, 'args': [], 'res': 0, 'err': 'setup:' + type(ex).__name__}]
    resclasses = P.Classes()
    for n in range(1, ncalls + 1):
        before = {k: P.fp_arg(v) for k, v in args.items()}
        err, res = '', 0
        st = np.random.get_state()
        try:
            np.random.seed(12345)
            out = call(args)
            res = resclasses.tol_id('res', P.canon(out))
        except Exception as ex:
            err = type(ex).__name__
        finally:
            np.random.set_state(st)
        after = {k: P.fp_arg(v) for k, v in args.items()}
        recs.append({'ep': ep, 'cont': cont, 'call': n,
                     'args': [{'name': k, 'before': cid(before[k]), 'after': cid(after[k])} for k in args],
                     'res': res, 'err': err})
    return recs


def _plot_work(case):
    from copulas import visualization as V
    k = 2 if case['kind'].endswith('2d') else 3
    cols = ['c%d' % i for i in range(1, case['ncols'] + 1)]
    real = pd.DataFrame(np.array(case['real'], dtype=float).reshape(-1, case['ncols']), columns=cols)
    kw = {}
    if case['colmode'] == 'given':
        kw['columns'] = cols[:k]
    elif case['colmode'] == 'reversed':
        kw['columns'] = cols[:k][::-1]
    err, obs = '', []
    # every third table carries 64-bit integers (value + 2^60) in its first column, next to the float columns
    big = (len(case['real']) + case['ncols'] + len(case['kind'])) % 3 == 0
    bigaxis = None
    if big:
        real[cols[0]] = (real[cols[0]].astype('int64') + BIG)
        shown = kw.get('columns', cols[:k])
        bigaxis = list(shown).index(cols[0]) if cols[0] in shown else None
    try:
        if case['kind'].startswith('compare'):
            synth = pd.DataFrame(np.array(case['synth'], dtype=float).reshape(-1, case['ncols']), columns=cols)
            if big:
                synth[cols[0]] = (synth[cols[0]].astype('int64') + BIG)
            fig = getattr(V, case['kind'])(real, synth, **kw)
        else:
            fig = getattr(V, case['kind'])(real, **kw)
        for p in _figure_points(fig):
            vals = list(p[1:])
            if bigaxis is not None:
                v = vals[bigaxis]
                vals[bigaxis] = (int(v) - BIG) if float(v).is_integer() else v      # exact integer arithmetic: a rounded coordinate does not come back as the table's value
            obs.append([p[0]] + [int(round(v)) for v in vals])
    except Exception as ex:
        err = type(ex).__name__
    return {'case': case, 'obs': obs, 'err': err}


def run(ctx):
    quick = ctx.tier == 'quick'
    ctx.rule = ('(a) TLC enumerates every (public entry point, argument container form) pair of the binding table with the '
                'argument objects re-used for 2 (thorough: 3) identical calls; each call is made on the real library with '
                'deep fingerprints of all argument objects taken before and after; (b) TLC enumerates / simulates plot requests '
                '(kind x columns omitted/given/reversed x extra column x small integer tables with repeated rows); each figure '
                'is built by the real helpers and its content compared as a bag by TLC.  non-trivial = a call that received at '
                'least one mutable argument object / a plot request with at least one row; distinct by (entry, container, call) '
                'resp. by request content')
    ctx.assumptions = ['argument identity is the deep content fingerprint fp_arg (dtype, shape, bytes, writeable flag, index, '
                       'column labels, dict/list order)', 'figure content is read from the plotly traces (name, x, y[, z])']
    wd = T.workdir()
    try:
        E = entries()
        table = [{'ep': ep, 'cont': c} for ep in sorted(E) for c in E[ep][0]]
        ef = os.path.join(wd, 'entries.json')
        T.dump_json(ef, table)
        ncalls = 2 if quick else 3
        cfg = 'SPECIFICATION Spec\nCONSTANTS\n  MaxCalls = %d\nINVARIANT ArgsNeverChange\nINVARIANT Emit\nPROPERTY RepeatableResult\nCHECK_DEADLOCK FALSE\n' % ncalls
        r = ctx.tlc('Ownership.gen', 'Ownership', cfg, workers=1, env={'ENTRIES_FILE': ef, 'TRACE_FILE': ef}, timeout=300)
        cases = []
        for c in r.tagged('CASE'):
            h = c[0]
            cases.append((h[0]['ep'], h[0]['cont'], sum(1 for x in h if x['e'] == 'Call')))
        if len(cases) != len(table):
            raise RuntimeError('Ownership: TLC produced %d cases for %d table entries' % (len(cases), len(table)))
        with Pool(16) as pool:
            out = pool.map(_own_work, cases, chunksize=1)
        log = [rec for recs in out for rec in recs]
        tf = os.path.join(wd, 'own.json')
        T.dump_json(tf, log)
        cfg2 = 'SPECIFICATION Spec\nCONSTANTS\n  MaxCalls = 0\nINVARIANT TraceChecked\nCHECK_DEADLOCK FALSE\n'
        ef0 = os.path.join(wd, 'none.json')
        T.dump_json(ef0, [])
        r2 = ctx.tlc('Ownership.trace', 'Ownership', cfg2, workers=1, env={'ENTRIES_FILE': ef0, 'TRACE_FILE': tf}, timeout=300)
        verdict = r2.tagged('VERDICT')
        if not verdict:
            raise RuntimeError('Ownership trace: no verdict\n' + r2.raw[-2000:])
        ctx.traces += len(cases)
        for rec in log:
            ctx.case('%s|%s|%d' % (rec['ep'], rec['cont'], rec['call']), nontrivial=bool(rec['args']))
        ctx.sample({'ownership_log_record': log[len(log) // 2]})
        for line, clauses in verdict[-1][0]:
            rec = log[line - 1]
            for cl in clauses:
                detail = ''
                if cl == 'argument-modified':
                    detail = ':' + ','.join(a['name'] for a in rec['args'] if a['before'] != a['after'])
                if cl in ('call-raised', 'second-call-raised'):
                    detail = ':' + rec['err']
                if cl == 'call-raised':
                    # a call that cannot be made at all says nothing about C20 (other properties own
                    # that); it is counted as unobserved.  A *second* identical call that raises after
                    # the first succeeded is reported as second-call-raised.
                    if rec['call'] == 1:
                        ctx.extra.setdefault('unobserved_entries', []).append('%s|%s|%s' % (rec['ep'], rec['cont'], rec['err']))
                    continue
                sig = 'C20|%s|%s|%s%s' % (rec['ep'], rec['cont'], cl, detail)
                ctx.violation(sig, '%s in %s with %s arguments (call %d)' % (cl + detail, rec['ep'], rec['cont'], rec['call']), rec)
        # ---- plots -------------------------------------------------------------------------------
        gen = open(os.path.join(CFG, 'PlotBags.gen.cfg')).read()
        pcases = {}
        r = ctx.tlc('PlotBags.gen', 'PlotBags', gen.replace('MaxRows = 2', 'MaxRows = 1'), workers=1,
                    env={'TRACE_FILE': ef0}, timeout=300)
        for c in r.tagged('CASE'):
            pcases[json.dumps(c[0], sort_keys=True)] = c[0]
        exhaustive_n = len(pcases)
        r = T.run('PlotBags', gen.replace('Vals = {0, 1}', 'Vals = {0, 1, 2}').replace('MaxRows = 2', 'MaxRows = 3'), workers=1,
                  env={'TRACE_FILE': ef0}, simulate='num=%d' % (150 if quick else 3000), depth=8, seed=ctx.seed + 5, timeout=300)
        for c in r.tagged('CASE'):
            pcases[json.dumps(c[0], sort_keys=True)] = c[0]
        plist = [pcases[k] for k in sorted(pcases)]
        with Pool(16) as pool:
            plog = pool.map(_plot_work, plist, chunksize=8)
        pf = os.path.join(wd, 'plots.json')
        T.dump_json(pf, plog)
        r3 = ctx.tlc('PlotBags.check', 'PlotBags', 'SPECIFICATION Spec\nCONSTANTS\n  Vals = {}\n  MaxRows = 0\nINVARIANT TraceChecked\nCHECK_DEADLOCK FALSE\n',
                     workers=1, env={'TRACE_FILE': pf}, timeout=600)
        verdict = r3.tagged('VERDICT')
        if not verdict:
            raise RuntimeError('PlotBags check: no verdict\n' + r3.raw[-2000:])
        ctx.traces += len(plist)
        ctx.extra['plot_requests'] = len(plist)
        ctx.extra['plot_requests_exhaustive_part'] = exhaustive_n
        for c in plist:
            ctx.case('plot|' + json.dumps(c, sort_keys=True))
        ctx.sample({'plot_request': plist[len(plist) // 2]})
        for line, clauses in verdict[-1][0]:
            rec = plog[line - 1]
            c = rec['case']
            for cl in clauses:
                sig = 'C20|visualization.%s|columns-%s,extra-%d|%s%s' % (
                    c['kind'], c['colmode'], c['ncols'] - (2 if c['kind'].endswith('2d') else 3), cl,
                    (':' + rec['err']) if rec['err'] else '')
                ctx.violation(sig, '%s for %s' % (cl, json.dumps(c)), rec)
    finally:
        import shutil
        shutil.rmtree(wd, ignore_errors=True)
    ctx.exhaustive = False
