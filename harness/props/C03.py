"""C03  Every fitted univariate obeys the laws of a distribution function."""
import warnings
from multiprocessing import Pool

import numpy as np

from .. import observe_bi as O

LEVEL = 'exploration'
warnings.simplefilter('ignore')
S = O.S
XS = 100000
LS = 1000000
BIG = 1900000000


def models():
    """(name, factory) for every class / option set of the property"""
    import copulas.univariate as U
    out = []
    for cls in ('GaussianUnivariate', 'UniformUnivariate', 'BetaUnivariate', 'GammaUnivariate', 'LogLaplace', 'StudentTUnivariate'):
        out.append((cls, lambda X, c=cls: getattr(U, c)()))
    out.append(('TruncatedGaussian', lambda X: U.TruncatedGaussian()))
    out.append(('TruncatedGaussian(bounds)', lambda X: U.TruncatedGaussian(minimum=float(np.min(X)) - 1.0, maximum=float(np.max(X)) + 2.0)))
    out.append(('GaussianKDE', lambda X: U.GaussianKDE()))
    out.append(('GaussianKDE(silverman)', lambda X: U.GaussianKDE(bw_method='silverman')))
    out.append(('GaussianKDE(0.3)', lambda X: U.GaussianKDE(bw_method=0.3)))
    out.append(('GaussianKDE(1.0)', lambda X: U.GaussianKDE(bw_method=1.0)))
    out.append(('GaussianKDE(sample_size=50)', lambda X: U.GaussianKDE(sample_size=50)))
    out.append(('Univariate(parametric)', lambda X: U.Univariate(parametric=U.ParametricType.PARAMETRIC)))
    out.append(('Univariate(Gaussian,KDE)', lambda X: U.Univariate(candidates=[U.GaussianUnivariate, U.GaussianKDE])))
    out.append(('Univariate(bounded)', lambda X: U.Univariate(bounded=U.BoundedType.BOUNDED)))
    out.append(('Univariate(instances)', _shared_wrapper))
    return out


def _shared_wrapper(X):
    """a wrapper whose candidates are given as instances; the caller keeps the list and builds a second wrapper from it later"""
    import copulas.univariate as U
    shared = [U.GaussianUnivariate(), U.GaussianKDE(bw_method='silverman'), U.TruncatedGaussian()]
    m = U.Univariate(candidates=shared)
    m._verif_shared = shared
    return m


def _sibling(m, X):
    """the caller's other wrapper, built from the same list of candidate instances, learns other data: the first wrapper is not affected"""
    shared = getattr(m, '_verif_shared', None)
    if shared is not None:
        import copulas.univariate as U
        try:
            U.Univariate(candidates=shared).fit(np.asarray(X, dtype=float)[::-1] * 3.0 + 50.0 + np.arange(len(X)) * 0.01)
        except Exception:
            pass


SHAPES = ('symmetric', 'skewed', 'bimodal', 'bounded', 'heavy', 'five-values', 'near-constant', 'shifted-large', 'offset-tiny-spread', 'micro')


def data(shape, n, rs):
    if shape == 'symmetric':
        return rs.normal(2.0, 1.5, n)
    if shape == 'skewed':
        return rs.gamma(1.5, 2.0, n) + 0.5
    if shape == 'bimodal':
        return np.where(rs.uniform(size=n) < 0.4, rs.normal(0, 1, n), rs.normal(9, 1.5, n))
    if shape == 'bounded':
        return rs.beta(0.6, 0.6, n) * 4.0 - 1.0
    if shape == 'heavy':
        return rs.standard_t(2.5, n) * 3.0
    if shape == 'five-values':
        return rs.choice([1.0, 2.0, 2.5, 4.0, 7.0], size=n) if n > 5 else np.array([1.0, 2.0, 2.5, 4.0, 7.0])
    if shape == 'near-constant':
        return 5.0 + 1e-3 * rs.normal(size=n)
    if shape == 'shifted-large':
        return 1.0e4 + rs.gamma(3.0, 50.0, n)
    if shape == 'offset-tiny-spread':       # spread 1e-7 of the magnitude (timestamps, large identifiers)
        return 1.0e7 + rs.uniform(0.0, 1.0, n)
    if shape == 'micro':                    # quantities of the order 1e-7 in absolute terms (lengths in metres, durations in seconds)
        return 2.0e-6 + 1.0e-7 * rs.normal(size=n)
    raise KeyError(shape)


def pmax_hint(Pd):
    f = np.isfinite(Pd)
    return float(np.max(np.abs(Pd[f]))) if f.any() else 1.0


def fxq(a):
    return O.fx(a, S)


def fxx(x, centre, span):
    x = np.asarray(x, dtype=float)
    with np.errstate(all='ignore'):
        v = (x - centre) / span * XS
    out = np.where(np.isnan(v), O.NAN, np.clip(np.nan_to_num(v, nan=0.0, posinf=BIG, neginf=-BIG), -BIG, BIG))
    return np.rint(out).astype(np.int64)


def _observe(job):
    mname, shape, n, seed = job[:4]
    past = job[4] if len(job) > 4 else seed      # which kind of past the instance has (varies over models and shapes)
    rs = np.random.RandomState(seed)
    X = data(shape, n, rs)
    fac = dict(models())[mname]
    rec = {'kind': 'regular', 'model': mname, 'shape': shape, 'n': n, 'err': '', 'S': S}
    st = np.random.get_state()
    try:
        np.random.seed(seed)
        m = fac(X)
        if past % 3 == 1:
            # a third of the models are instances with a past: fitted to a narrower sample lying to the right of this one and queried
            try:
                old = X[: max(5, len(X) // 3)] * 0.2 + (np.max(X) + 1.0)
                m.fit(old.copy())
                m.cumulative_distribution(old[:3].copy())
                m.percent_point(np.array([0.3, 0.6]))
                m.probability_density(old[:3].copy())
                m.sample(2)
            except Exception:
                pass
        elif past % 3 == 2:
            # another third held a point mass before (a constant column; the constant is 0.0, integer 0, 5.0 or -2e6 in turn) and answered queries with it
            try:
                c = (0.0, 0, 5.0, -2.0e6)[(past // 3) % 4]
                m.fit(np.full(11, c))
                m.cumulative_distribution(np.array([c - 1.0, c + 1.0]))
                m.percent_point(np.array([0.5]))
                m.sample(2)
            except Exception:
                pass
        try:
            if seed % 2:        # the copula hands columns over as pandas Series: fit through a Series whose index is not 0..n-1
                import pandas as pd
                m.fit(pd.Series(X.copy(), index=np.random.RandomState(seed).permutation(len(X)) + 5, name='col'))
            else:
                Xc = X.copy()
                m.fit(Xc)
                if past % 2 == 0:       # the caller reuses its buffer after the fit: the model is that of the data it was fitted to
                    Xc[:] = Xc[::-1] * 0.5 - 3.0
            _sibling(m, X)
        except Exception as ex:
            return {'skip': True, 'model': mname, 'shape': shape, 'n': n, 'why': 'fit raised ' + type(ex).__name__}
        lo, hi = float(np.min(X)), float(np.max(X))
        span = hi - lo
        try:        # scipy's generic optimiser sometimes collapses (e.g. Beta with scale 1e-29): such a fit is a point mass, not this check's subject
            w = np.asarray(m.percent_point(np.array([0.001, 0.999])), dtype=float)
            if np.isfinite(w).all() and (w[1] - w[0]) < 1e-6 * span:
                if type(getattr(m, '_instance', None) or m).__name__ not in ('BetaUnivariate', 'GammaUnivariate', 'LogLaplace', 'StudentTUnivariate'):
                    rec['err'] = 'point-mass-fitted-to-non-constant-data'      # closed-form / own-optimiser families and the KDE have no such excuse
                    raise RuntimeError('point mass')
                return {'skip': True, 'model': mname, 'shape': shape, 'n': n, 'why': 'degenerate fit (width %.3g of a data range %.3g)' % (w[1] - w[0], span)}
        except RuntimeError:
            raise
        except Exception:
            pass
        centre = float(np.median(X))
        with np.errstate(all='ignore'):
            grid = np.unique(np.concatenate([np.linspace(lo - 3 * span, hi + 3 * span, 141), np.linspace(lo, hi, 61)]))
            # cells should not straddle the end of a bounded support (the density jumps or is singular there): the ends the
            # model itself reports through percent_point(0) / percent_point(1) become grid points
            ends = np.array([])
            try:
                ends = np.asarray(m.percent_point(np.array([0.0, 1.0])), dtype=float)
                ends = ends[np.isfinite(ends) & (ends > grid[0]) & (ends < grid[-1])]
                grid = np.unique(np.concatenate([grid, ends]))
            except Exception:
                ends = np.array([])
            F = np.asarray(m.cumulative_distribution(grid.copy()), dtype=float)
            far = np.array([lo - 1e12 * span, -np.inf, hi + 1e12 * span, np.inf])
            Ffar = np.asarray(m.cumulative_distribution(far.copy()), dtype=float)
            Pd = np.asarray(m.probability_density(grid.copy()), dtype=float)
            # cell integrals of the pdf
            x3, w3 = np.polynomial.legendre.leggauss(3)
            x6, w6 = np.polynomial.legendre.leggauss(6)
            a, b = grid[:-1], grid[1:]
            mid, half = (a + b) / 2, (b - a) / 2
            I = {}
            for nn, (xs, ws) in ((3, (x3, w3)), (6, (x6, w6))):
                pts = (mid[:, None] + half[:, None] * xs[None, :]).ravel()
                pv = np.asarray(m.probability_density(pts), dtype=float).reshape(len(mid), nn)
                I[nn] = half * (pv * ws[None, :]).sum(axis=1)
            # a second error estimate: the same rule on the two halves of each cell (a jump of the density inside a cell -
            # the end of a bounded support - fools the 3-point / 6-point comparison but not this one)
            hpts = np.concatenate([(mid - half / 2)[:, None] + (half / 2)[:, None] * x6[None, :],
                                   (mid + half / 2)[:, None] + (half / 2)[:, None] * x6[None, :]], axis=1)
            hv = np.asarray(m.probability_density(hpts.ravel()), dtype=float).reshape(len(mid), 12)
            Isplit = (half / 2) * (hv * np.concatenate([w6, w6])[None, :]).sum(axis=1)
            alt = np.where(np.abs(I[6] - Isplit) > np.abs(I[6] - I[3]), Isplit, I[3])
            I[3] = alt
            DF = F[1:] - F[:-1]
            # a cell that ends at a singularity of the density (Beta / LogLaplace / Gamma with shape < 1 at a support end) cannot be
            # resolved by a fixed Gauss rule: it carries no information and is dropped from the quadrature law
            with np.errstate(all='ignore'):
                nodemax = np.maximum(pv.max(axis=1), 1e-300)
                sing = np.isposinf(Pd[:-1]) | np.isposinf(Pd[1:]) | (Pd[:-1] > 50 * nodemax) | (Pd[1:] > 50 * nodemax)
            # a cell a few ulps wide (the end of the support the model reports next to the extreme observation it was fitted to) cannot be
            # resolved either: next to a singular end those few ulps carry 1e-4 of the mass (1 - cdf ~ (1 - x)^b with b = 0.2)
            sing = sing | (((b - a) <= 1e-9 * span) & (np.isin(a, ends) | np.isin(b, ends)))
            # ... and the cell that touches a support end the model reports, with the density growing towards that end (the value AT the end
            # can come out as 0 instead of +inf when (x - loc) / scale rounds to a hair above 1)
            sing = sing | (np.isin(b, ends) & (pv[:, -1] > 5 * np.maximum(pv[:, 0], 1e-300))) | (np.isin(a, ends) & (pv[:, 0] > 5 * np.maximum(pv[:, -1], 1e-300)))
            sing = sing | np.concatenate([[False], sing[:-1]]) | np.concatenate([sing[1:], [False]])     # and its neighbours: one ulp next to
            # such an end moves the cdf by a percent (e.g. Beta with b = 0.12: 1 - cdf ~ (1 - x)^b)
            I[6] = np.where(sing, np.nan, I[6])
            rec['singular_cells'] = int(sing.sum())
            # quantiles
            Q = np.concatenate([[0.0, 1e-6, 1e-3], np.linspace(0.01, 0.99, 51), [1 - 1e-3, 1 - 1e-6, 1.0]])
            Qin = Q[(Q >= 1e-3) & (Q <= 1 - 1e-3)]
            try:
                XQ = np.asarray(m.percent_point(Q.copy()), dtype=float)
            except Exception as ex:
                # the extreme probabilities are a separate matter (thorough tier): retry on the interior
                XQ = None
                rec['ppf_edge_error'] = type(ex).__name__
            if XQ is None:
                Q = Qin
                XQ = np.asarray(m.percent_point(Q.copy()), dtype=float)
            fin = np.isfinite(XQ)
            # "continuous at floating-point resolution": the standardisation (x - loc) / scale inside the model can map several
            # adjacent doubles to one argument, so the two probes are placed a few ulps (1e-14 of the scale) away, not one
            dx = 1e-14 * np.maximum(np.abs(np.where(fin, XQ, 0.0)), span)
            xm = np.where(fin, XQ - dx, 0.0)
            xp = np.where(fin, XQ + dx, 0.0)
            FM = np.asarray(m.cumulative_distribution(xm), dtype=float)
            FP = np.asarray(m.cumulative_distribution(xp), dtype=float)
            FM[~fin] = np.nan
            FP[~fin] = np.nan
            inner = (Q >= 1e-3) & (Q <= 1 - 1e-3)
            FM[~inner] = np.nan          # quick tier: the two inverse identities on q in [1e-3, 1 - 1e-3]
            FP[~inner] = np.nan
            # ppf(cdf(x)) = x where the density is positive
            sel = (Pd > 1e-2 / span) & (F > 1e-3) & (F < 1 - 1e-3) & (grid >= lo) & (grid <= hi)
            XB = grid[sel][::3]
            XBack = np.asarray(m.percent_point(np.asarray(m.cumulative_distribution(XB.copy()), dtype=float)), dtype=float) if len(XB) else XB
            # far tails (scipy-backed models; the KDE documents a cut at 1.2e-7 where its percent point returns +-inf)
            TLo, THi = [], []
            if 'KDE' not in mname and type(getattr(m, '_instance', None)).__name__ != 'GaussianKDE':
                for qq in (1e-9, 1e-7, 1e-5):
                    for upper in (False, True):
                        x = float(np.ravel(m.percent_point(np.array([1.0 - qq if upper else qq])))[0])
                        if not np.isfinite(x):
                            TLo.append(np.nan)
                            THi.append(np.nan)
                            continue
                        d = 1e-13 * max(abs(x), span)
                        f1 = float(np.ravel(m.cumulative_distribution(np.array([x - d])))[0])
                        f2 = float(np.ravel(m.cumulative_distribution(np.array([x + d])))[0])
                        if upper:       # survival function, probes mirrored
                            t_in, t_out = 1.0 - f2, 1.0 - f1
                        else:
                            t_in, t_out = f1, f2
                        TLo.append(min(t_in / qq, 1e3))       # the side towards the tail end must not exceed q
                        THi.append(min(t_out / qq, 1e3))      # the side towards the centre must reach q
            LP = np.asarray(m.log_probability_density(grid.copy()), dtype=float)
            # every element of a batch is evaluated for itself: one-element calls, the reversed batch, and a batch whose other
            # elements lie far outside the data / at the ends of [0, 1] give the same values (root finders: to 1e-6 of the range)
            rsb = np.random.RandomState(seed + 7)
            pick = rsb.choice(len(grid), size=8, replace=False)
            qpick = Qin[rsb.choice(len(Qin), size=8, replace=False)]
            batchdev = 0.0
            for f, pts, full, extra, scale_ in ((m.cumulative_distribution, grid[pick], F[pick], np.array([lo - 50 * span, hi + 50 * span]), 1.0),
                                               (m.probability_density, grid[pick], Pd[pick], np.array([lo - 50 * span, hi + 50 * span]), max(pmax_hint(Pd), 1e-300)),
                                               (m.percent_point, qpick, None, np.array([0.0, 1.0, 1e-9]), span)):
                base = np.asarray(f(pts.copy()), dtype=float) if full is None else full
                one = np.array([float(np.ravel(f(np.array([x])))[0]) for x in pts])
                rev = np.asarray(f(pts[::-1].copy()), dtype=float)[::-1]
                mixed = np.asarray(f(np.concatenate([extra[:1], pts, extra[1:]])), dtype=float)[1:1 + len(pts)]
                for other in (one, rev, mixed):
                    ok_ = np.isfinite(base) & np.isfinite(other)
                    if (np.isfinite(base) != np.isfinite(other)).any():
                        batchdev = max(batchdev, 1.0)
                    if ok_.any():
                        batchdev = max(batchdev, float(np.max(np.abs(base[ok_] - other[ok_]))) / scale_)
            rec['batchdev'] = int(min(batchdev, 1.0) * 1e9)
            pos = Pd > 1e-300
            # where the density is zero (outside a bounded support, or underflow) the log density must be -inf or below the
            # underflow range of doubles: both sides are cut at -690 (= log 1e-300)
            LPlog = np.where(pos, np.log(np.where(pos, Pd, 1.0)), -690.0)
            LP = np.where(pos | np.isnan(LP), LP, np.maximum(LP, -690.0))
        pmax = float(np.max(np.abs(Pd[np.isfinite(Pd)]))) if np.isfinite(Pd).any() else 1.0
        ps = min(10.0 ** np.floor(np.log10(1.5e9 / max(pmax, 1e-12))), 1e9)
        Fall = np.concatenate([[Ffar[1], Ffar[0]], F, [Ffar[2], Ffar[3]]])       # -inf, far left, grid, far right, +inf
        rec.update({'F': fxq(Fall).tolist(), 'Flo': int(fxq(Ffar[1:2])[0]), 'Fhi': int(fxq(Ffar[3:4])[0]),
                    'P': O.fx(np.where(np.isposinf(Pd), 1.0 / ps, Pd), ps).tolist(),      # +inf at a singular support end is a legitimate density value
 'I6': fxq(I[6]).tolist(), 'I3': fxq(I[3]).tolist(), 'DF': fxq(DF).tolist(),
                    'Q': fxq(Q).tolist(), 'XQ': fxx(XQ, centre, span).tolist(), 'FM': fxq(FM).tolist(), 'FP': fxq(FP).tolist(),
                    'TLo': O.fx(np.array(TLo, dtype=float), 1000000).tolist(), 'THi': O.fx(np.array(THi, dtype=float), 1000000).tolist(),
                    'XB': fxx(XB, centre, span).tolist(), 'XBack': fxx(XBack, centre, span).tolist(), 'xtol': 10,
                    'LP': O.fx(LP, LS).tolist(), 'LPlog': O.fx(LPlog, LS).tolist()})
    except Exception as ex:
        import traceback
        if not rec['err']:
            rec['err'] = 'raised-' + type(ex).__name__
            rec['trace'] = traceback.format_exc(limit=-2)[-400:]
        for k_ in ('F', 'P', 'I6', 'I3', 'DF', 'Q', 'XQ', 'FM', 'FP', 'XB', 'XBack', 'LP', 'LPlog', 'TLo', 'THi'):
            rec.setdefault(k_, [])
        rec.setdefault('batchdev', 0)
        rec.setdefault('Flo', 0)
        rec.setdefault('Fhi', S)
        rec.setdefault('xtol', 10)
    finally:
        np.random.set_state(st)
    return rec


def _constant(job):
    mname, c, n = job
    fac = dict(models())[mname]
    X = np.full(n, c)
    rec = {'kind': 'constant', 'model': mname, 'shape': 'constant(%g)' % c, 'n': n, 'err': '', 'stepBelow': True, 'stepAt': True,
           'ppfIsC': True, 'sampleIsC': True}
    try:
        m = fac(X)
        if n % 4 == 0:      # an instance that modelled non-constant data before
            try:
                Y = np.random.RandomState(n).normal(c + 3.0, 2.0, 40)
                m.fit(Y)
                m.cumulative_distribution(Y[:3].copy())
            except Exception:
                pass
        m.fit(X.copy())
        _sibling(m, X)
        below = np.array([c - 1.0, np.nextafter(c, -np.inf), c - 1e-9 * max(1.0, abs(c))])
        at = np.array([c, np.nextafter(c, np.inf), c + 1.0])
        rec['stepBelow'] = bool(np.all(np.asarray(m.cumulative_distribution(below)) == 0.0))
        rec['stepAt'] = bool(np.all(np.asarray(m.cumulative_distribution(at)) == 1.0))
        rec['ppfIsC'] = bool(np.all(np.asarray(m.percent_point(np.array([0.01, 0.5, 0.99]))) == c))
        # probabilities are numbers in [0, 1] whatever their container type: the end points as integers, single precision
        for q in (np.array([0, 1]), np.array([0.25, 0.5, 1.0], dtype=np.float32), np.array([1], dtype=np.int32)):
            rec['ppfIsC'] = rec['ppfIsC'] and bool(np.all(np.asarray(m.percent_point(q), dtype=float) == float(c)))
        for x in (np.array([int(np.floor(c)) - 1, int(np.ceil(c)) + 1]), np.array([c - 2.0, c + 2.0], dtype=np.float32)):
            F = np.asarray(m.cumulative_distribution(x), dtype=float)
            rec['stepBelow'] = rec['stepBelow'] and bool(F[0] == 0.0)
            rec['stepAt'] = rec['stepAt'] and bool(F[1] == 1.0)
        rec['sampleIsC'] = bool(np.all(np.asarray(m.sample(7)) == c) and len(np.ravel(m.sample(7))) == 7)
    except Exception as ex:
        rec['err'] = 'raised-' + type(ex).__name__
    return rec


def _bigcall(job):
    """one call with thousands of points on a model trained on thousands of points: every element is still evaluated for itself
    (the same points in chunks of 512 give the same values), the CDF is still monotone and reaches its limits"""
    mname, ndata, m, seed = job
    rs = np.random.RandomState(seed)
    X = np.concatenate([rs.normal(0.0, 1.0, ndata // 2), rs.normal(6.0, 2.0, ndata - ndata // 2)])
    fac = dict(models())[mname]
    probs = []
    st = np.random.get_state()
    try:
        mod = fac(X)
        mod.fit(X.copy())
        grid = np.sort(rs.uniform(X.min() - 3.0, X.max() + 3.0, m))
        qs = np.sort(rs.uniform(0.001, 0.999, m))
        for name, f, arg in (('cdf', mod.cumulative_distribution, grid), ('pdf', mod.probability_density, grid), ('ppf', mod.percent_point, qs)):
            whole = np.asarray(f(arg.copy()), dtype=float)
            parts = np.concatenate([np.asarray(f(arg[i:i + 512].copy()), dtype=float) for i in range(0, m, 512)])
            if whole.shape != parts.shape or not np.allclose(whole, parts, rtol=1e-9, atol=1e-9, equal_nan=True):
                bad = int(np.argmax(np.abs(whole - parts))) if whole.shape == parts.shape else -1
                probs.append(('elements-of-a-batch-not-evaluated-independently', '%s of %d points in one call differs from the same points in chunks (first at %d)' % (name, m, bad)))
            if name in ('cdf', 'ppf') and np.any(np.diff(whole) < -1e-9):
                probs.append(('%s-not-monotone' % name, '%d points in one call' % m))
    except Exception as ex:
        probs.append(('raised-' + type(ex).__name__, 'large call'))
    finally:
        np.random.set_state(st)
    return probs


def run(ctx):
    quick = ctx.tier == 'quick'
    ctx.rule = ('every univariate class and option set of the property (6 scipy families, TruncatedGaussian with and without bounds, GaussianKDE with '
                'scott / silverman / 0.3 / 1.0 / sample_size, the selecting Univariate with four candidate configurations, one of them a list of instances shared with a second wrapper) x 8 data shapes x sizes '
                '%s (plus constant data): cdf, pdf, log_pdf on a 200-point grid reaching 3 ranges beyond the data and at +-1e12 ranges / +-inf, '
                'Gauss-Legendre cell integrals of the pdf, percent_point on 57 probabilities with the cdf at the adjacent floats, ppf(cdf(x)); TLC '
                '(DistLaws) evaluates the laws.  non-trivial = a model that could be fitted; distinct by (model, shape, size)') % ('{50}' if quick else '{5, 50, 500}')
    ctx.assumptions = ['inverse identities on q in [1e-3, 1-1e-3]; monotonicity of percent_point on [0,1] incl. 1e-6 from the ends',
                       'tolerances: 1e-6 in probability, 1e-4 of the data range in x, quadrature bound 4|I6-I3| + 3e-6 + 1e-4|dF|']
    sizes = (50,) if quick else (5, 50, 500)
    jobs = [(mn, sh, n, ctx.seed * 31 + i, ctx.seed + i + 4 * si) for i, (mn, _) in enumerate(models()) for si, sh in enumerate(SHAPES) for n in sizes
            if not (n == 5 and sh in ('bimodal',))]
    cjobs = [(mn, c, n) for mn, _ in models() for c, n in ((3.5, 20), (0.0, 12), (-2.0e6, 8))]
    with Pool(16) as pool:
        obs = pool.map(_observe, jobs, chunksize=1)
        cobs = pool.map(_constant, cjobs, chunksize=4)
        bjobs = [(mn, nd, mm, ctx.seed + 3 + i) for i, (mn, nd, mm) in enumerate([(mn, nd, mm) for mn in [x for x, _ in models()][:16] if mn.startswith(('GaussianKDE', 'GaussianUnivariate', 'BetaUnivariate'))
                                                                                  for nd, mm in (((2600, 4100),) if quick else ((2600, 4100), (6500, 6500), (2000, 9000)))])][:(4 if quick else 24)]
        bres = pool.map(_bigcall, bjobs, chunksize=1)
    skipped = [o for o in obs if o.get('skip')]
    obs = [o for o in obs if not o.get('skip')] + cobs
    ctx.extra['models_that_could_not_be_fitted'] = ['%s/%s/%d: %s' % (o['model'], o['shape'], o['n'], o['why']) for o in skipped]
    ctx.extra['ppf_raised_at_extreme_probabilities'] = sorted({'%s/%s' % (o['model'], o['shape']) for o in obs if o.get('ppf_edge_error')})
    recs = [{k: v for k, v in o.items() if k not in ('trace', 'ppf_edge_error', 'singular_cells')} for o in obs]
    ctx.extra['cells_dropped_at_density_singularities'] = sum(o.get('singular_cells', 0) for o in obs)
    verdict = O.run_laws(ctx, 'DistLaws', 'DistLaws', recs)
    for o in obs:
        ctx.case('%s|%s|%d' % (o['model'], o['shape'], o['n']))
    ctx.sample({k: obs[10].get(k) for k in ('model', 'shape', 'n', 'Q', 'XQ')})
    for i, laws in verdict:
        o = obs[i]
        for law in laws:
            ctx.violation('C03|%s|%s|%s' % (o['model'], law, o['shape'] if o['kind'] == 'regular' else 'constant'),
                          '%s fitted on %s data (n=%d) violates %s %s' % (o['model'], o['shape'], o['n'], law, o.get('trace', '')),
                          {'model': o['model'], 'shape': o['shape'], 'n': o['n'], 'law': law})
    for job, probs in zip(bjobs, bres):
        ctx.case('bigcall|%s|%d|%d' % job[:3])
        for p, detail in probs:
            ctx.violation('C03|%s|%s|large-call' % (job[0], p), '%s trained on %d points: %s' % (job[0], job[1], detail), list(job))
    ctx.traces += len(obs)          # observation tables / samples of the real code judged by TLC
    ctx.exhaustive = False
