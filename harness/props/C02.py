"""C02  Fitted Gaussian-copula correlation is a valid, correctly computed matrix."""
import itertools
import warnings
from multiprocessing import Pool

import numpy as np
import pandas as pd

from .. import observe_bi as O

LEVEL = 'exploration'
warnings.simplefilter('ignore')
S = O.S
RELATIONS = ('independent', 'dependent', 'duplicate', 'negative', 'monotone', 'constant', 'near-duplicate', 'weak')
CONFIGS = ('gaussian-class', 'gaussian-name', 'instance', 'dict', 'kde', 'default')


def table(ncol, relations, rs, n=60, labels='str', scale=1.0):
    cols = ['w3', 'a0', 'm1', 'z4', 'c2', 'k9'][:ncol]         # training order is not the alphabetical order
    z = rs.normal(size=(n, ncol))
    out = {}
    for j in range(ncol):
        rel = relations[j]
        if j == 0 or rel == 'independent':
            v = z[:, j] * (j + 1) + j
        elif rel == 'dependent':
            v = 0.7 * out[cols[j - 1]] + z[:, j]
        elif rel == 'duplicate':
            v = out[cols[0]].copy()
        elif rel == 'negative':
            v = -out[cols[0]]
        elif rel == 'monotone':
            v = np.exp(out[cols[0]] / (1 + np.abs(out[cols[0]]).max()) * 3)
        elif rel == 'constant':
            v = np.full(n, 2.5)
        elif rel == 'weak':
            # sample Pearson correlation with the first column exactly 0.006 (weak is not absent)
            a = out[cols[0]] - np.mean(out[cols[0]])
            e = z[:, j] - np.mean(z[:, j])
            e = e - a * (a @ e) / (a @ a)
            v = 0.006 * a / np.sqrt(a @ a) + np.sqrt(1 - 0.006 ** 2) * e / np.sqrt(e @ e)
            v = v * 3.0 + 1.0
        elif rel == 'near-duplicate':
            v = out[cols[0]] + 1e-9 * z[:, j]
        out[cols[j]] = v
    # a row index that is neither 0..n-1 nor sorted: nothing may be aligned on it by accident
    df = pd.DataFrame(out, index=rs.permutation(n) * 3 + 100)
    if scale != 1.0:            # far from the origin and on another scale (every relation above is invariant under this map)
        for j, c in enumerate(df.columns):
            df[c] = df[c] * scale + 3.0e7 * (1 if j % 2 else -1)
    if labels == 'int':         # column labels need not be strings (nor sorted)
        df.columns = [30, 10, 50, 20, 60, 40][:ncol]
    return df


def config(name, cols):
    from copulas.univariate import GaussianKDE, GaussianUnivariate, UniformUnivariate
    if name == 'gaussian-class':
        return {'distribution': GaussianUnivariate}
    if name == 'gaussian-name':
        return {'distribution': 'copulas.univariate.gaussian.GaussianUnivariate'}
    if name == 'instance':
        return {'distribution': GaussianUnivariate()}
    if name == 'dict':
        # keys in another order than the table's columns, and (3+ columns) not naming the first one: the dict only says which family
        # a column gets, never where the column goes
        named = list(enumerate(cols))[::-1] if len(cols) < 3 else list(enumerate(cols))[:0:-1]
        return {'distribution': {c: (GaussianUnivariate if i % 2 else UniformUnivariate) for i, c in named}}
    if name == 'kde':
        return {'distribution': GaussianKDE}
    return {}


def reference(m, df):
    from scipy import stats
    from copulas.utils import EPSILON
    Z = np.column_stack([stats.norm.ppf(np.clip(np.asarray(u.cdf(df[c].to_numpy()), dtype=float), EPSILON, 1 - EPSILON))
                         for c, u in zip(df.columns, m.univariates)])
    Zc = Z - Z.mean(axis=0)
    sd = np.sqrt((Zc ** 2).sum(axis=0))
    with np.errstate(all='ignore'):
        R = (Zc.T @ Zc) / np.outer(sd, sd)
    R = np.nan_to_num(R, nan=0.0)
    return R


def _observe(job):
    ncol, relations, cfg, seed = job
    from copulas.multivariate import GaussianMultivariate
    rs = np.random.RandomState(seed)
    # most tables have 60 rows; every seventh has 1234 (nothing may depend on the number of rows being small or round)
    df = table(ncol, relations, rs, n=1234 if seed % 7 == 3 else 60, labels='int' if seed % 5 == 2 else 'str', scale=250.0 if seed % 9 == 4 else 1.0)
    cols = list(df.columns)
    rec = {'kind': 'corr', 'err': '', 'S': S, 'R': [], 'Rref': [], 'const': [bool(df[c].nunique() == 1) for c in cols], 'mineig': 0,
           'labelsOK': True, 'usable': True, 'desc': '%d|%s|%s' % (ncol, ','.join(relations[1:]), cfg)}
    st = np.random.get_state()
    try:
        np.random.seed(seed)
        kw = config(cfg, cols)
        if cfg == 'instance' and seed % 2 == 0:
            # a prototype that is in use elsewhere: it was fitted (to constant data below the table's values) before it was handed over
            try:
                kw['distribution'].fit(np.full(8, float(df.to_numpy(dtype=float).min()) - 1.0))
            except Exception:
                pass
        m = GaussianMultivariate(**kw)
        if seed % 3 == 1:       # an instance with a past: fitted to, and used on, a table with another dependence
            old = pd.DataFrame({c: rs.permutation(df[c].to_numpy()) for c in cols})
            if seed % 4 == 0:   # the earlier table had the same columns with values somewhere else entirely
                old = old * 0.5 - 1000.0
            if seed % 2:      # the earlier table had the same columns in another order (and, now and then, one more in front)
                old = old[cols[::-1]]
                if seed % 4 == 1:
                    old.insert(0, 'extra', np.arange(len(old), dtype=float) % 7)
            try:
                m.fit(old)
                m.sample(2)
                m.probability_density(old.iloc[:2])
            except Exception:
                pass
        m.fit(df.copy())
        C = m.correlation
        R = np.asarray(C.to_numpy(), dtype=float)
        rec['labelsOK'] = bool(list(C.columns) == cols and list(C.index) == cols and list(m.columns) == cols)
        rec['R'] = O.fx(R).tolist()
        rec['Rref'] = O.fx(reference(m, df)).tolist()
        if np.isfinite(R).all():
            rec['mineig'] = int(O.fx(np.array([np.min(np.linalg.eigvalsh((R + R.T) / 2))]))[0])
        try:
            m.set_random_state(1)
            s = m.sample(6)
            p = np.asarray(m.probability_density(df.iloc[:4]), dtype=float)
            ok = bool(len(s) == 6 and not s.isna().any().any() and np.isfinite(s.to_numpy(dtype=float)).all() and
                      np.isfinite(p).all() and (p >= 0).all())
            # conditional sampling inverts a block of the matrix: the ridge must make that possible too
            nonconst = [c for c in cols if df[c].nunique() > 1]
            given = nonconst[:2] if len(nonconst) >= 3 else nonconst[:1]
            if ok and len(cols) > len(given) >= 1:
                cs = m.sample(4, conditions={c: float(df[c].iloc[0]) for c in given})
                ok = bool(len(cs) == 4 and not cs.isna().any().any() and np.isfinite(cs.to_numpy(dtype=float)).all())
            rec['usable'] = ok
        except Exception:
            rec['usable'] = False
    except Exception as ex:
        rec['err'] = 'fit-raised-' + type(ex).__name__
    finally:
        np.random.set_state(st)
    return rec


def run(ctx):
    quick = ctx.tier == 'quick'
    ctx.rule = ('tables of 2..%d columns whose columns 2.. stand in every combination of relations to the first / previous column (independent, '
                'dependent, exact duplicate, exact negative, monotone transform, constant, duplicate up to 1e-9, correlation exactly 0.006) x marginal configurations (class, '
                'qualified name, instance, per-column dict, KDE, default selection); TLC (GaussLaws) checks on the fixed-point matrix: finite, '
                'symmetric, entries in [-1,1], unit diagonal for non-constant columns up to the ridge, zero correlation of constant columns, every '
                'entry equal to the harness\'s own normal-score Pearson correlation, smallest eigenvalue >= -ridge, labels, and that sampling and '
                'density evaluation still work.  non-trivial = every fitted table; distinct by (layout, configuration)') % (3 if quick else 5)
    ctx.assumptions = ['ridge tolerance 3e-7', 'reference correlation computed through the public marginal cdf of the fitted model']
    jobs = []
    maxcol = 3 if quick else 5
    for ncol in range(2, maxcol + 1):
        combos = list(itertools.product(RELATIONS, repeat=ncol - 1))
        if ncol > 3:
            rs = np.random.RandomState(ctx.seed + ncol)
            combos = [combos[i] for i in rs.choice(len(combos), size=60, replace=False)]
        for rel in combos:
            for cfg in CONFIGS:
                if cfg == 'default' and (quick and ncol > 2):
                    continue
                jobs.append((ncol, ('first',) + rel, cfg, ctx.seed * 7 + len(jobs)))
    # wider tables with several constant columns between, before and after the others (every tier)
    for rel in (('constant', 'dependent', 'constant', 'dependent'), ('constant', 'dependent', 'dependent', 'constant'), ('dependent', 'constant', 'constant', 'dependent'),
                ('constant', 'constant', 'dependent'), ('dependent', 'constant', 'negative', 'constant', 'dependent'), ('constant', 'weak', 'constant', 'monotone')):
        for cfg in ('gaussian-class', 'dict', 'kde'):
            jobs.append((len(rel) + 1, ('first',) + rel, cfg, ctx.seed * 7 + len(jobs)))
    with Pool(16) as pool:
        obs = pool.map(_observe, jobs, chunksize=2)
    verdict = O.run_laws(ctx, 'GaussLaws.corr', 'GaussLaws', [{k: v for k, v in o.items() if k != 'desc'} for o in obs])
    for o in obs:
        ctx.case(o['desc'])
    ctx.sample({'desc': obs[7]['desc'], 'R': obs[7]['R'], 'Rref': obs[7]['Rref'], 'mineig': obs[7]['mineig']})
    for i, laws in verdict:
        o = obs[i]
        n, rel, cfg = o['desc'].split('|')
        for law in laws:
            ctx.violation('C02|%s|%s|%s' % (cfg, law, '+'.join(sorted(set(rel.split(','))))),
                          'correlation of a %s-column table (%s) with %s marginals violates %s' % (n, rel, cfg, law), dict(o, rerun=['harness.props.C02._observe', list(jobs[i])]))
    ctx.traces += len(obs)          # observation tables / samples of the real code judged by TLC
    ctx.exhaustive = False
