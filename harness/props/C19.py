"""C19  Model lifecycle: fit is a pure function of its inputs; misuse fails loudly."""
import os

from .. import bindings as B
from .. import session_jobs as SJ
from .. import tlc as T

LEVEL = 'model_checking'
CFG = os.path.join(T.SPEC, 'cfg')

CLAUSES = {'model-behaviour-differs', 'equal-models-behave-differently', 'lifecycle-state-differs',
           'wrong-exception-class', 'expected-error-but-call-returned'}
EVENT_CLAUSES = {
    'unexpected-exception': ('Fit', 'Query', 'GetInstance', 'New'),
    'result-differs': ('Query',),
}

ECHO_SOURCES = ('global-generator-differs',)


def relevant(clause, shape):
    if shape.startswith(('GlobalSeed', 'GlobalDraw', 'SetSeed', 'Dataset')):
        return False
    if clause in CLAUSES:
        return True
    return any(shape.startswith(p) for p in EVENT_CLAUSES.get(clause, ()))


def plans(b, quick):
    data = list(b.valid) + list(b.invalid)
    out = []
    # (a) fit histories on one object: New, Fit, Fit[, Fit | Query | Sample]
    out.append((SJ.gen_cfg(b, 3 if quick else 4, ["New", "Fit", "FitRejected", "Query", "Sample"], init='Init', nobj=1,
                           cfgs=b.cfgs, data=data, seeds=(), sizes=(2,)), {}, 1))
    # (b) prototypes: get_instance of a fitted / unfitted instance, then fit the clone
    out.append((SJ.gen_cfg(b, 4, ["New", "Fit", "GetInstance", "Query"], init='Init', nobj=2, cfgs=b.cfgs,
                           data=list(b.valid)[:2], seeds=(), sizes=(2,), methods=list(b.methods)[:1]),
                {'simulate': 'num=%d' % (60 if quick else 600), 'depth': 5}, 2))
    # (c) option sets whose fit draws random numbers (KDE sample_size, selection_sample_size), seeded and unseeded models: with the
    #     global generator set to the same state before the fit, a refitted model and a fresh one are the same model
    if b.draw_cfgs:
        out.append((SJ.gen_cfg(b, 4, ["New", "Fit", "GlobalSeed", "Query"], init='Init', nobj=1, cfgs=b.draw_cfgs,
                               data=list(b.valid)[:2], seeds=(1,), sizes=(2,), methods=list(b.methods)[:1]), {}, 1))
    return out


def start_recorded_tests(wd):
    """the repository's own end-to-end tests under harness/recorder.py with lifecycle events switched on"""
    import subprocess
    import sys
    import copulas
    src = os.path.dirname(os.path.dirname(os.path.abspath(copulas.__file__)))
    d = os.path.join(wd, 'rec')
    os.makedirs(d)
    os.symlink(os.path.join(src, 'copulas'), os.path.join(d, 'copulas'))
    for name in ('tests', 'data', 'pyproject.toml'):
        if os.path.exists(os.path.join('/repo', name)):
            os.symlink(os.path.join('/repo', name), os.path.join(d, name))
    trace = os.path.join(wd, 'life.json')
    env = dict(os.environ, COPULAS_VERIF='1', COPULAS_VERIF_LIFE=trace, PYTHONPATH=d + os.pathsep + T.VERIF)
    env.pop('COPULAS_VERIF_TRACE', None)
    proc = subprocess.Popen([sys.executable, '-m', 'pytest', '-q', '-p', 'no:cacheprovider', '-p', 'harness.recorder', 'tests/end-to-end'],
                            cwd=d, env=env, stdout=subprocess.DEVNULL, stderr=subprocess.DEVNULL)
    return proc, trace


def finish_recorded_tests(ctx, proc, trace):
    import json
    try:
        proc.wait(timeout=1500)
    except Exception:
        proc.kill()
    if not os.path.exists(trace):
        ctx.extra['recorded_repo_tests'] = 'not available (pytest run produced no trace)'
        return
    with open(trace) as f:
        log = json.load(f)
    ctx.extra['recorded_lifecycle_events_in_repo_tests'] = len(log)
    ctx.extra['recorded_objects'] = len({e['o'] for e in log})
    if not log:
        return
    r = T.run('LifeTrace', 'SPECIFICATION Spec\nINVARIANT TraceChecked\nCHECK_DEADLOCK FALSE\n', workers=1, env={'TRACE_FILE': trace}, timeout=600)
    ctx.note_tlc('LifeTrace', r)
    v = r.tagged('VERDICT')
    if not v:
        raise T.TlcError('LifeTrace: no verdict\n' + r.raw[-1500:])
    ctx.traces += 1
    for line, clauses in v[0][0]:
        e = log[line - 1]
        for cl in clauses:
            ctx.violation('C19|recorded:%s|%s|%s' % (e['cls'], cl, e['name']),
                          '%s during the repository test %s (%s.%s, state %s -> %s, %s)' % (cl, e['test'], e['cls'], e['name'], e['l0'], e['l1'], 'raised ' + e['err'] if e['err'] else 'returned'), e)


def run(ctx):
    quick = ctx.tier == 'quick'
    recwd = T.workdir()
    recproc, rectrace = start_recorded_tests(recwd)
    ctx.rule = ('TLC enumerates every behaviour of Session over the lifecycle alphabet (New, Fit on every data kind incl. '
                'constant / NaN / empty / non-numeric, Query, Sample, GetInstance) up to the tier bound for every class '
                'binding and constructor option set; each is executed on real objects (constructor, get_instance by class '
                'and by name); a case is one (binding, construction form, behaviour); non-trivial = contains a Fit; '
                'distinct by content; plus behaviours of spec/Coexist.tla over two live objects of different classes (bivariate families, marginals incl. wrappers sharing '
                'candidate instances, Gaussian copulas sharing a prototype and vines), every answer compared with the same model alone in a fresh process; plus the lifecycle clauses (LifeTrace) on every public call the repository\'s own end-to-end tests make (out-of-tree recorder)')
    ctx.assumptions = ['observable behaviour = class, to_dict, pdf/cdf/ppf (or density/likelihood) on a fixed probe set '
                       'and the sample of a re-seeded deep copy, compared with rtol 1e-9',
                       'vine fits are preceded by an allocator poison whose value cycles, so dependence on '
                       'uninitialised buffers shows as history dependence']
    mc = open(os.path.join(CFG, 'Session.c19.mc.cfg')).read()
    if quick:
        mc = mc.replace('MaxLen = 5', 'MaxLen = 4')
    r = ctx.tlc('Session.c19.mc', 'Session', mc, timeout=900, coverage=True)
    ctx.extra['design_action_coverage'] = SJ.require_coverage(r, ['New', 'Fit', 'FitRejected', 'Query', 'Sample', 'GetInstance'], ())
    want = []
    for b in B.all_bindings():
        if b.name == 'GaussianMultivariate3cond':
            continue
        variants = [{'newform': 'ctor'}]
        if not quick or b.kind in ('uni', 'vine'):
            variants += [{'newform': 'class'}, {'newform': 'name'}]
        if len(b.cfgs) > 1 or b.kind == 'vine':
            variants += [{'newform': 'mixed'}]       # objects built with positional and keyword arguments (prototypes of get_instance)
        for i, v in enumerate(variants):
            if b.kind == 'vine':
                v = dict(v, poison_cycle=(0.0, 0.625, float('nan')))
            pl = plans(b, quick)
            if i > 0:
                pl = pl[1:] if quick else pl     # other construction forms: prototype plan only in the quick tier
            want.append((b.name, v, pl))
    try:
        SJ.run_session_jobs(ctx, 'C19', want, 'harness.props.C19', ('Fit',))
        # code -> spec on executions this framework did not design: the lifecycle clauses on every public call of the repository's end-to-end tests
        finish_recorded_tests(ctx, recproc, rectrace)
        # the same sentence for a process that holds models of DIFFERENT classes (spec/Coexist.tla): every answer of a fitted model equals
        # the answer of the same model alone in a fresh process, whatever another live object was fitted to, asked or sampled in between
        from .. import coexist
        coexist.run_coexistence(ctx, 'C19')
    finally:
        import shutil
        if recproc.poll() is None:
            recproc.kill()
        shutil.rmtree(recwd, ignore_errors=True)
    ctx.exhaustive = False


def replay(body):
    return SJ.replay(body)
