--------------------------------- MODULE DistLaws ---------------------------------
(***************************************************************************)
(* C03: every fitted univariate obeys the laws of a distribution function.    *)
(* One observation = one fitted model (class, options, data).  Fixed point:   *)
(* probabilities scaled by S, abscissae mapped to (x - centre) / span * XS,    *)
(* densities by a per-table scale, logs by LS.                                 *)
(*   F   cdf on an increasing grid reaching far beyond both tails             *)
(*   Flo, Fhi  cdf at the far-left / far-right probe points                    *)
(*   P   pdf on the grid;  I6, I3, DF  cell integrals of the pdf and cdf       *)
(*       increments on the cells of the grid                                   *)
(*   Q   probabilities; XQ = ppf(Q); FM, FP = cdf at the floats adjacent to    *)
(*       ppf(Q) (Galois form of "ppf inverts the cdf where it is continuous at *)
(*       floating-point resolution")                                           *)
(*   XB, XBack  grid points with positive density and ppf(cdf(x)) there         *)
(*   LP, LPlog   log_pdf and log(pdf)                                           *)
(*   batchdev    batch value vs the same element alone / reversed / mixed        *)
(* A constant-data observation carries the exact clauses as booleans computed  *)
(* from exact comparisons (step at c, ppf = c, sample = c).                    *)
(***************************************************************************)
EXTENDS Laws, Json, IOUtils, TLCExt
Obs == JsonDeserialize(IOEnv.TRACE_FILE)
VARIABLE k
Init == k = 1
Next == k < Len(Obs) /\ k' = k + 1
Spec == Init /\ [][Next]_k

TOLQ == 1000           \* 1e-5 in probability (scaled by S = 1e8); scipy's generic MLE can return ill-conditioned parameters
                       \* (LogLaplace with c ~ 1e10 on nearly constant data) for which cdf(ppf(q)) is only good to ~2e-6

Regular(o) ==
  (IF o.err # "" THEN <<o.err>> ELSE <<>>) \o
  (IF ~Finite(o.F) THEN <<"cdf-not-finite">>
   ELSE (IF ~NonDecreasing(o.F, 2) THEN <<"cdf-decreases">> ELSE <<>>) \o
        (IF ~InRange(o.F, -TOLQ, o.S + TOLQ) THEN <<"cdf-outside-unit-interval">> ELSE <<>>)) \o
  (IF o.Flo = NAN \/ o.Fhi = NAN \/ o.Flo > 10 * TOLQ \/ o.Fhi < o.S - 10 * TOLQ THEN <<"cdf-limits-are-not-0-and-1">> ELSE <<>>) \o
  (IF ~Finite(o.P) THEN <<"pdf-not-finite">> ELSE IF \E i \in DOMAIN o.P : o.P[i] < 0 THEN <<"pdf-negative">> ELSE <<>>) \o
  (IF ~QuadratureSeq(o.I6, o.I3, o.DF, 300, 100) THEN <<"pdf-does-not-integrate-to-cdf-increments">> ELSE <<>>) \o
  (IF ~NonDecreasing(o.XQ, 1) THEN <<"percent_point-decreases">> ELSE <<>>) \o
  (IF \E i \in DOMAIN o.Q : o.FM[i] # NAN /\ o.FP[i] # NAN /\ ~(o.FM[i] - TOLQ <= o.Q[i] /\ o.Q[i] <= o.FP[i] + TOLQ)
      THEN <<"cdf-of-percent_point-is-not-q">> ELSE <<>>) \o
  (IF ~CloseSeq(o.XB, o.XBack, o.xtol, 0) THEN <<"percent_point-of-cdf-is-not-x">> ELSE <<>>) \o
  \* far tails, relative Galois form for q = 1e-9, 1e-7, 1e-5 (lower tail: cdf, upper tail: 1 - cdf): with x = ppf(q) and d a few
  \* ulps, tail(x - d) / q <= 1 + 1e-3 and tail(x + d) / q >= 1 - 1e-3 (ratios scaled by 1e6, capped at 1e9)
  (IF \E i \in DOMAIN o.TLo : o.TLo[i] # NAN /\ o.THi[i] # NAN /\ (o.TLo[i] > 1001000 \/ o.THi[i] < 999000)
      THEN <<"percent_point-does-not-invert-cdf-in-the-tails">> ELSE <<>>) \o
  (IF ~CloseSeq(o.LP, o.LPlog, 5, 2) THEN <<"log_pdf-is-not-log-of-pdf">> ELSE <<>>) \o
  \* batchdev: largest difference (scaled by 1e9; relative to the data range for percent_point, to the largest density for pdf)
  \* between a batch value and the same element evaluated alone / in the reversed batch / next to far-out elements
  (IF o.batchdev > 1000 THEN <<"elements-of-a-batch-not-evaluated-independently">> ELSE <<>>)

Constant(o) ==
  (IF o.err # "" THEN <<o.err>> ELSE <<>>) \o
  (IF ~o.stepBelow THEN <<"constant:cdf-below-c-is-not-0">> ELSE <<>>) \o
  (IF ~o.stepAt THEN <<"constant:cdf-from-c-on-is-not-1">> ELSE <<>>) \o
  (IF ~o.ppfIsC THEN <<"constant:percent_point-is-not-c">> ELSE <<>>) \o
  (IF ~o.sampleIsC THEN <<"constant:sample-is-not-c">> ELSE <<>>)

Problems(o) == IF o.kind = "constant" THEN Constant(o) ELSE Regular(o)
TraceChecked == k = 1 => PrintT(<<"VERDICT", SelectSeq([i \in 1..Len(Obs) |-> <<i, Problems(Obs[i])>>], LAMBDA p : p[2] # <<>>)>>)
=============================================================================
