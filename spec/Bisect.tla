--------------------------------- MODULE Bisect ---------------------------------
(***************************************************************************)
(* copulas.optimize.bisect, exactly (C18).                                  *)
(*                                                                           *)
(* Positions are integers in fine units: the real abscissa is pos / Fine     *)
(* with Fine a power of two, so every midpoint the algorithm forms is an     *)
(* integer as long as the brackets start on multiples of 2^MaxIter - and is  *)
(* an exactly representable double in the implementation.  A lane's function *)
(* is monotone and given by its zero set {x : Z1 <= 2x <= Z2} (half units;   *)
(* Z1 = Z2 odd: the root lies strictly between grid points, f is never 0;    *)
(* Z1 < Z2: a flat zero interval).  One Iterate step is one pass of the      *)
(* vectorised loop, including the f(guess) = 0 case that moves both ends.    *)
(***************************************************************************)
EXTENDS Integers, Sequences, FiniteSets, TLC, Json, IOUtils

\* the case family (TLC configuration files cannot hold sets of tuples): [brackets: <<<<lo, hi>>>>, zeros: <<<<Z1, Z2>>>>]
BParams == JsonDeserialize(IOEnv.BISECT_PARAMS)
Brackets == {<<BParams.brackets[i][1], BParams.brackets[i][2]>> : i \in DOMAIN BParams.brackets}   \* fine units, multiples of 2^MaxIter
Zeros == {<<BParams.zeros[i][1], BParams.zeros[i][2]>> : i \in DOMAIN BParams.zeros}              \* half fine units

CONSTANTS Lanes,        \* 1..L
          TolW,         \* the loop stops when the widest bracket is <= TolW fine units (i.e. < tol)
          MaxIter

VARIABLES lo, hi, zs, lo0, hi0, it, phase, hist
vars == <<lo, hi, zs, lo0, hi0, it, phase, hist>>

Sgn(z, x) == IF 2 * x < z[1] THEN -1 ELSE IF 2 * x > z[2] THEN 1 ELSE 0
MaxW == LET W == {hi[l] - lo[l] : l \in Lanes} IN CHOOSE w \in W : \A v \in W : v <= w
Valid == \A l \in Lanes : Sgn(zs[l], lo[l]) <= 0 /\ Sgn(zs[l], hi[l]) >= 0

Init ==
  /\ \E br \in [Lanes -> Brackets], z \in [Lanes -> Zeros] :
       /\ lo = [l \in Lanes |-> br[l][1]] /\ hi = [l \in Lanes |-> br[l][2]] /\ zs = z
  /\ lo0 = lo /\ hi0 = hi /\ it = 0 /\ phase = "start" /\ hist = <<>>

\* the two assertions at the top of bisect
Check ==
  /\ phase = "start"
  /\ phase' = IF Valid THEN "loop" ELSE "rejected"
  /\ UNCHANGED <<lo, hi, zs, lo0, hi0, it, hist>>

Mid(l) == (lo[l] + hi[l]) \div 2
Iterate ==
  /\ phase = "loop" /\ it < MaxIter
  /\ lo' = [l \in Lanes |-> IF Sgn(zs[l], Mid(l)) <= 0 THEN Mid(l) ELSE lo[l]]
  /\ hi' = [l \in Lanes |-> IF Sgn(zs[l], Mid(l)) >= 0 THEN Mid(l) ELSE hi[l]]
  /\ it' = it + 1
  /\ hist' = Append(hist, [l \in Lanes |-> Mid(l)])
  /\ phase' = IF (LET W == {hi'[l] - lo'[l] : l \in Lanes} IN \A w \in W : w <= TolW) \/ it + 1 = MaxIter
              THEN "done" ELSE "loop"
  /\ UNCHANGED <<zs, lo0, hi0>>

Next == Check \/ Iterate
Spec == Init /\ [][Next]_vars

Result(l) == (lo[l] + hi[l])      \* twice the returned midpoint (kept integral)

(* ---- C18 for bisect ------------------------------------------------------------------------- *)
Exact == phase \in {"loop", "done"} => \A l \in Lanes : (lo[l] + hi[l]) % 2 = 0 \/ phase = "done"
Ordered == \A l \in Lanes : lo[l] <= hi[l]
Nested == \A l \in Lanes : lo0[l] <= lo[l] /\ hi[l] <= hi0[l]
RootBracketed == phase \in {"loop", "done"} => \A l \in Lanes : Sgn(zs[l], lo[l]) <= 0 /\ Sgn(zs[l], hi[l]) >= 0
\* distance (in half units) from the returned midpoint to the nearest zero of the lane's function
Dist2(l) == LET m == Result(l) IN IF m < zs[l][1] THEN zs[l][1] - m ELSE IF m > zs[l][2] THEN m - zs[l][2] ELSE 0
Converged == (phase = "done" /\ MaxW <= TolW) => \A l \in Lanes : Dist2(l) <= TolW /\ lo0[l] * 2 <= Result(l) /\ Result(l) <= hi0[l] * 2
\* a lane is solved as if it were alone: its bracket after k iterations is what the one-lane loop gives after k
RECURSIVE Solo(_, _, _, _)
Solo(z, a, b, k) == IF k = 0 THEN <<a, b>>
                    ELSE LET m == (a + b) \div 2
                             s == Sgn(z, m)
                         IN Solo(z, IF s <= 0 THEN m ELSE a, IF s >= 0 THEN m ELSE b, k - 1)
LaneIndependent == phase \in {"loop", "done"} => \A l \in Lanes : <<lo[l], hi[l]>> = Solo(zs[l], lo0[l], hi0[l], it)
InvalidRejected == (phase = "rejected") <=> (phase # "start" /\ it = 0 /\ ~(\A l \in Lanes : Sgn(zs[l], lo0[l]) <= 0 /\ Sgn(zs[l], hi0[l]) >= 0))

Finished == phase \in {"done", "rejected"}
Emit == Finished => PrintT(<<"CASE", [lo0 |-> lo0, hi0 |-> hi0, zs |-> zs, phase |-> phase, it |-> it, guesses |-> hist,
                                       result2 |-> [l \in Lanes |-> Result(l)]]>>)
=============================================================================
