-------------------------------- MODULE DerivLaws --------------------------------
(***************************************************************************)
(* C07: partial_derivative is dC/dv, probability_density is d2C/du dv.        *)
(*                                                                            *)
(* Derivative relations are stated in integral form (no finite differences,   *)
(* which amplify the rounding noise of the CDF): over every cell of the grid  *)
(*    integral of h(u, .) over [v_j, v_j+1]      = C(u, v_j+1) - C(u, v_j)      *)
(*    integral of c over [u_i,u_i+1]x[v_j,v_j+1] = C-volume of the cell        *)
(* with the integrals taken by 6-point Gauss-Legendre rules of the            *)
(* implementation's own outputs; the 3-point rule gives a self-calibrating    *)
(* error bound |I6 - I3| (Laws!Quadrature).  Observation (one family, one     *)
(* theta; values scaled by S):                                                *)
(*   H (h on the grid), hI6/hI3/hD (per u-row: sequences over v-cells),       *)
(*   cI6/cI3/cD (per cell, row-major), P / PT (density and its transpose,     *)
(*   mantissa-scaled), LP / LPlog (log_pdf and log(pdf), scaled by LS),        *)
(*   h1 (h at u = 1), rowwise pairs                                            *)
(***************************************************************************)
EXTENDS Laws, Json, IOUtils, TLCExt
Obs == JsonDeserialize(IOEnv.TRACE_FILE)
VARIABLE k
Init == k = 1
Next == k < Len(Obs) /\ k' = k + 1
Spec == Init /\ [][Next]_k

Problems(o) ==
  (IF ~Finite2(o.H) THEN <<"h-not-finite">>
   ELSE (IF ~InRange2(o.H, -2, o.S + 2) THEN <<"h-outside-unit-interval">> ELSE <<>>) \o
        (IF \E j \in DOMAIN o.H[1] : ~NonDecreasing(Column(o.H, j), 3) THEN <<"h-not-monotone-in-u">> ELSE <<>>)) \o
  (IF \E i \in DOMAIN o.hI6 : ~QuadratureSeq(o.hI6[i], o.hI3[i], o.hD[i], 30, 10) THEN <<"h-is-not-dC/dv">> ELSE <<>>) \o
  (IF ~QuadratureSeq(o.cI6, o.cI3, o.cD, 30, 10) THEN <<"density-is-not-d2C/dudv">> ELSE <<>>) \o
  (IF ~Finite2(o.P) THEN <<"density-not-finite">>
   ELSE (IF \E i \in DOMAIN o.P : \E j \in DOMAIN o.P[i] : o.P[i][j] < 0 THEN <<"density-negative">> ELSE <<>>) \o
        (IF ~(\A i \in DOMAIN o.P : CloseSeq(o.P[i], o.PT[i], 2, 1)) THEN <<"density-not-symmetric">> ELSE <<>>)) \o
  (IF ~CloseSeq(o.LP, o.LPlog, 2, 1) THEN <<"log_pdf-is-not-log-of-pdf">> ELSE <<>>) \o
  (IF \E i \in DOMAIN o.h1 : o.h1[i] # NAN /\ Abs(o.h1[i] - o.S) > 2 THEN <<"h-at-u=1-is-not-1">> ELSE <<>>) \o
  (IF \E i \in DOMAIN o.rowwise : o.rowwise[i].a # o.rowwise[i].b THEN <<"rows-of-a-batch-not-independent">> ELSE <<>>)

TraceChecked == k = 1 => PrintT(<<"VERDICT", SelectSeq([i \in 1..Len(Obs) |-> <<i, Problems(Obs[i])>>], LAMBDA p : p[2] # <<>>)>>)
=============================================================================
