"""Stub distributions used to realise every outcome vector the Selection specification enumerates."""
import numpy as np
from scipy.stats import norm

from copulas.univariate import GaussianUnivariate
from copulas.univariate.base import BoundedType, ParametricType, ScipyModel
from copulas.utils import store_args


class UserError(Exception):
    """an exception type of the user's own"""


# "cannot be fitted" = fit raises; which exception is the distribution's business
ERRORS = (ValueError, RuntimeError, TypeError, KeyError, AttributeError, ZeroDivisionError, IndexError, UserError, np.linalg.LinAlgError,
          NotImplementedError, OverflowError)


class StubBase(ScipyModel):
    """A candidate whose Kolmogorov-Smirnov distance to N(0,1)-like data is controlled by RANK
    (1 = best, larger = worse); RANK 0 cannot be fitted."""
    PARAMETRIC = ParametricType.PARAMETRIC
    BOUNDED = BoundedType.UNBOUNDED
    MODEL_CLASS = norm
    RANK = 1
    POSITION = 0

    def _fit_constant(self, X):
        self._params = {'loc': np.unique(X)[0], 'scale': 0}

    def _fit(self, X):
        if self.RANK == 0:
            raise ERRORS[self.POSITION % len(ERRORS)]('this candidate cannot be fitted')
        self._params = {'loc': float(np.mean(X)), 'scale': float(np.std(X))}

    def _is_constant(self):
        return self._params['scale'] == 0

    def _extract_constant(self):
        return self._params['loc']

    def cumulative_distribution(self, X):
        self.check_fit()
        return np.clip(norm.cdf(X, **self._params) + 0.15 * (self.RANK - 1), 0.0, 1.0)


def stub_class(position, rank):
    return type('Stub_p%d_r%d' % (position, rank), (StubBase,), {'RANK': rank, 'POSITION': position - 1, '__module__': __name__})


class HistStub(StubBase):
    """A candidate whose outcome depends on the data set: RANKS[0] on data centred near 0, RANKS[1] on data centred near 100."""
    RANKS = (1, 1)

    def _fit(self, X):
        self._rank = self.RANKS[0] if abs(float(np.mean(X))) < 50 else self.RANKS[1]
        if self._rank == 0:
            raise ERRORS[self.POSITION % len(ERRORS)]('this candidate cannot be fitted to these data')
        self._params = {'loc': float(np.mean(X)), 'scale': float(np.std(X))}

    def cumulative_distribution(self, X):
        self.check_fit()
        return np.clip(norm.cdf(X, **self._params) + 0.15 * (self._rank - 1), 0.0, 1.0)


def hist_class(position, r1, r2):
    return type('Hist_p%d_r%d%d' % (position, r1, r2), (HistStub,), {'RANKS': (r1, r2), 'POSITION': position - 1, '__module__': __name__})


class ParamStub(StubBase):
    """one class, configured per instance: the KS rank (0 = cannot be fitted) is a constructor argument, so a candidate list can hold
    several differently configured prototypes of the same family"""

    @store_args
    def __init__(self, rank=1, position=0, random_state=None):
        StubBase.__init__(self, random_state=random_state)
        self.RANK = rank
        self.POSITION = position


class PickyGaussian(GaussianUnivariate):
    """A user distribution that raises in fit for columns whose values are shifted beyond 500; a shift of k * 1000 selects the
    k-th exception type of ERRORS."""

    def _fit(self, X):
        if np.mean(X) > 500:
            raise ERRORS[int(round(np.mean(X) / 1000.0)) % len(ERRORS)]('PickyGaussian refuses this column')
        GaussianUnivariate._fit(self, X)


class ShiftStub(StubBase):
    """cdf = true cdf shifted by SHIFT (up: the largest deviation is at the left limits of the empirical cdf; down: at the right
    limits) - candidates whose Kolmogorov-Smirnov distances differ by less than 1/n and sit on opposite sides."""
    SHIFT = 0.0

    def _fit(self, X):
        self._params = {'loc': float(np.mean(X)), 'scale': float(np.std(X))}

    def cumulative_distribution(self, X):
        self.check_fit()
        return np.clip(norm.cdf(X, **self._params) + self.SHIFT, 0.0, 1.0)


def shift_class(tag, shift):
    return type('Shift_%s' % tag, (ShiftStub,), {'SHIFT': shift, '__module__': __name__})
