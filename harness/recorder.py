"""Out-of-tree recorder (pytest plugin): while foreign code - the repository's own end-to-end tests - runs, every outermost
`sample` call on a model object is logged with the fingerprints of the global NumPy generator and of the model's own generator
before and after the call (also on the exception path).  Active only when COPULAS_VERIF=1 and COPULAS_VERIF_TRACE=<file> (sampling events) and / or COPULAS_VERIF_LIFE=<file> (lifecycle events: every outermost fit / query / sample / to_dict with the fitted state before and after and the exception class);
nothing in /repo is modified: the wrappers are installed on the classes at pytest start-up and removed at the end.

    cd /repo && COPULAS_VERIF=1 COPULAS_VERIF_TRACE=/path/trace.json PYTHONPATH=/verif pytest -p harness.recorder tests/end-to-end
"""
import functools
import json
import os

from . import project as P

_EVENTS = []
_DEPTH = [0]
_ORIG = []


def _classes():
    import copulas.bivariate as cb
    import copulas.multivariate as cm
    import copulas.univariate as cu
    from copulas.bivariate.base import Bivariate
    from copulas.univariate.base import ScipyModel
    out = [cu.Univariate, ScipyModel, cu.GaussianKDE, Bivariate, cm.GaussianMultivariate, cm.VineCopula]
    return out


def _wrap(cls):
    orig = cls.__dict__.get('sample')
    if orig is None:
        return

    @functools.wraps(orig)
    def wrapper(self, *a, **k):
        if _DEPTH[0] > 0:
            return orig(self, *a, **k)
        _DEPTH[0] += 1
        g0 = P.fp_global()
        r0 = P.fp_model_rng(self)
        err = ''
        try:
            return orig(self, *a, **k)
        except BaseException as ex:
            err = type(ex).__name__
            raise
        finally:
            _DEPTH[0] -= 1
            _EVENTS.append({'cls': type(self).__name__, 'seeded': r0 is not None, 'g0': g0, 'g1': P.fp_global(), 'r0': r0 or '',
                            'r1': P.fp_model_rng(self) or '', 'err': err,
                            'test': os.environ.get('PYTEST_CURRENT_TEST', '').split(' ')[0]})
    _ORIG.append((cls, orig))
    cls.sample = wrapper


# ---- lifecycle events (C19 on foreign executions) ----------------------------------------------------------------------
_LIFE = []
_LDEPTH = [0]
_LORIG = []
_OIDS = {}
QUERIES = ('probability_density', 'log_probability_density', 'cumulative_distribution', 'percent_point', 'partial_derivative',
           'get_likelihood', 'pdf', 'cdf', 'ppf', 'log_pdf')


_NEXT = [0]


def _oid(m):
    """a number per object; addresses are reused after garbage collection, so the entry goes when the object goes"""
    import weakref
    k = id(m)
    if k not in _OIDS:
        _NEXT[0] += 1
        _OIDS[k] = _NEXT[0]
        try:
            weakref.finalize(m, _OIDS.pop, k, None)
        except TypeError:
            pass
    return _OIDS[k]


def _life(m):
    """'fitted' / 'unfitted' as the public attributes tell it (bivariates have no flag: a parameter stands for it)"""
    import copulas.bivariate.base as bb
    if isinstance(m, bb.Bivariate):
        if type(m).__name__ == 'Independence':
            return 'parameterless'
        return 'fitted' if getattr(m, 'theta', None) is not None else 'unfitted'
    return 'fitted' if getattr(m, 'fitted', False) else 'unfitted'


def _group(m):
    import copulas.bivariate.base as bb
    import copulas.multivariate.base as mb
    return 'bi' if isinstance(m, bb.Bivariate) else 'multi' if isinstance(m, mb.Multivariate) else 'uni'


def _wrap_life(cls, name):
    orig = cls.__dict__.get(name)
    if orig is None or not callable(orig) or isinstance(orig, (classmethod, staticmethod)):
        return

    @functools.wraps(orig)
    def wrapper(self, *a, **k):
        if _LDEPTH[0] > 0:
            return orig(self, *a, **k)
        _LDEPTH[0] += 1
        l0 = _life(self)
        err = ''
        try:
            return orig(self, *a, **k)
        except BaseException as ex:
            err = type(ex).__name__
            raise
        finally:
            _LDEPTH[0] -= 1
            _LIFE.append({'cls': type(self).__name__, 'grp': _group(self), 'o': _oid(self),
                          'm': 'query' if name in QUERIES else name, 'name': name, 'l0': l0, 'l1': _life(self), 'err': err,
                          'test': os.environ.get('PYTEST_CURRENT_TEST', '').split(' ')[0]})
    _LORIG.append((cls, name, orig))
    setattr(cls, name, wrapper)


def _install_life():
    import copulas.bivariate as cb
    import copulas.multivariate as cm
    import copulas.univariate as cu
    from copulas.bivariate.base import Bivariate
    from copulas.univariate.base import ScipyModel
    seen = set()
    for base in (cu.Univariate, ScipyModel, Bivariate, cm.GaussianMultivariate, cm.VineCopula):
        stack = [base]
        while stack:
            c = stack.pop()
            if c in seen:
                continue
            seen.add(c)
            stack.extend(c.__subclasses__())
            for name in ('fit', 'sample', 'to_dict') + QUERIES:
                _wrap_life(c, name)


def pytest_configure(config):
    if os.environ.get('COPULAS_VERIF') != '1':
        return
    if os.environ.get('COPULAS_VERIF_LIFE'):
        _install_life()
    if not os.environ.get('COPULAS_VERIF_TRACE'):
        return
    for c in _classes():
        _wrap(c)


def pytest_unconfigure(config):
    lpath = os.environ.get('COPULAS_VERIF_LIFE')
    if os.environ.get('COPULAS_VERIF') == '1' and lpath:
        for cls, name, orig in _LORIG:
            setattr(cls, name, orig)
        with open(lpath, 'w') as f:
            json.dump(_LIFE, f)
    path = os.environ.get('COPULAS_VERIF_TRACE')
    if os.environ.get('COPULAS_VERIF') != '1' or not path:
        return
    for cls, orig in _ORIG:
        cls.sample = orig
    ids = {}

    def num(fp):
        return 0 if fp == '' else ids.setdefault(fp, len(ids) + 1)
    out = [{'cls': e['cls'], 'seeded': e['seeded'], 'g0': num(e['g0']), 'g1': num(e['g1']), 'r0': num(e['r0']), 'r1': num(e['r1']),
            'err': e['err'], 'test': e['test']} for e in _EVENTS]
    with open(path, 'w') as f:
        json.dump(out, f)
