------------------------------- MODULE Bracketing -------------------------------
(***************************************************************************)
(* The bracketing automaton copulas.optimize.chandrupatla must refine (C18). *)
(*                                                                           *)
(* Per lane the algorithm keeps three abscissae: a (newest estimate), b (the *)
(* end with the opposite sign), c (the previous end), and returns xm, the    *)
(* one of a, b with the smaller |f|.  The inverse-quadratic interpolation    *)
(* arithmetic is abstracted: the next evaluation point is ANY point the      *)
(* clamp allows - strictly inside the current bracket while the lane is      *)
(* live, anywhere in the original bracket once it has terminated (the real   *)
(* clamp [tlim, 1 - tlim] inverts when tlim > 1/2 and the lane keeps being   *)
(* stepped while slower lanes run).  The bookkeeping of lines 105-120 is     *)
(* exact and depends only on signs and on the order of |f| values.           *)
(*                                                                           *)
(* Part 1 (design): positions on an integer grid, f monotone with its zero   *)
(* at R/2; TLC checks the bracketing invariants for every choice sequence.   *)
(* Part 2 (trace): recorded evaluations of the real code, order-encoded      *)
(* (position ranks, signs, |f| ranks), are replayed through the same         *)
(* bookkeeping; the value the real code returned must be the automaton's xm. *)
(***************************************************************************)
EXTENDS Integers, Sequences, FiniteSets, TLC, Json, IOUtils, TLCExt

(* ---- the bookkeeping, shared by both parts --------------------------------------------------- *)
\* point = [x, s, m]: abscissa (integer / rank), sign of f, rank of |f|
Update(st, p) ==
  LET same == p.s = st.a.s IN
  [a |-> p,
   b |-> IF same THEN st.b ELSE st.a,
   c |-> IF same THEN st.a ELSE st.b]
Xm(st) == IF st.a.m < st.b.m THEN st.a ELSE st.b
Bracketed(st) == st.a.s * st.b.s <= 0

(* ---- part 1: design model --------------------------------------------------------------------- *)
CONSTANTS G,        \* grid 0..G
          MaxSteps
VARIABLES R2, xlo, xhi, st, term, steps
vars == <<R2, xlo, xhi, st, term, steps>>

Pt(x) == [x |-> x, s |-> (IF 2 * x < R2 THEN -1 ELSE IF 2 * x > R2 THEN 1 ELSE 0),
          m |-> (IF 2 * x >= R2 THEN 2 * x - R2 ELSE R2 - 2 * x)]
PtR(r, x) == [x |-> x, s |-> (IF 2 * x < r THEN -1 ELSE IF 2 * x > r THEN 1 ELSE 0),
              m |-> (IF 2 * x >= r THEN 2 * x - r ELSE r - 2 * x)]

Init ==
  /\ xlo \in 0..(G - 1) /\ xhi \in (xlo + 1)..G
  /\ R2 \in (2 * xlo)..(2 * xhi)                 \* f(xlo) <= 0 <= f(xhi): a valid bracket
  /\ st = [a |-> PtR(R2, xhi), b |-> PtR(R2, xlo), c |-> PtR(R2, xhi)]     \* a = xmax, b = xmin, c = a
  /\ term = FALSE /\ steps = 0

Between(x, p, q) == (p < x /\ x < q) \/ (q < x /\ x < p)
InteriorStep ==
  /\ ~term /\ steps < MaxSteps
  /\ \E x \in xlo..xhi : Between(x, st.a.x, st.b.x) /\ st' = Update(st, Pt(x))
  /\ steps' = steps + 1 /\ UNCHANGED <<R2, xlo, xhi, term>>
Terminate ==                       \* fm = 0 or the tolerance test; from then on the lane is only "kept warm"
  /\ ~term /\ term' = TRUE /\ UNCHANGED <<R2, xlo, xhi, st, steps>>
TerminatedStep ==
  /\ term /\ steps < MaxSteps
  /\ \E x \in xlo..xhi : st' = Update(st, Pt(x))
  /\ steps' = steps + 1 /\ UNCHANGED <<R2, xlo, xhi, term>>
Next == InteriorStep \/ Terminate \/ TerminatedStep
Spec == Init /\ [][Next]_vars

BracketSign == Bracketed(st)
PointsInside == \A p \in {st.a, st.b, st.c} : xlo <= p.x /\ p.x <= xhi
XmIsBetterEnd == Xm(st).m <= st.a.m /\ Xm(st).m <= st.b.m
\* while a lane is live every step improves (or keeps) the returned estimate
LiveStepsImprove == [][(~term /\ ~term' /\ steps' = steps + 1) => Xm(st').m <= Xm(st).m]_vars
\* a live lane's bracket shrinks
LiveBracketShrinks == [][(~term /\ ~term' /\ steps' = steps + 1) =>
                           (LET w(s) == IF s.a.x > s.b.x THEN s.a.x - s.b.x ELSE s.b.x - s.a.x IN w(st') < w(st))]_vars

(* ---- part 2: replay of recorded evaluations ----------------------------------------------------- *)
\* lane record: [lo, hi: points at the bracket ends, evals: sequence of points, ret: rank of the returned abscissa,
\*               inside, accurate, exactzero: contract predicates evaluated in floating point by the harness]
BLog == JsonDeserialize(IOEnv.TRACE_FILE)

RECURSIVE Replay(_, _, _)
Replay(s, evals, i) == IF i > Len(evals) THEN s ELSE Replay(Update(s, evals[i]), evals, i + 1)
RECURSIVE AllBracketed(_, _, _)
AllBracketed(s, evals, i) == Bracketed(s) /\ (i > Len(evals) \/ AllBracketed(Update(s, evals[i]), evals, i + 1))

LaneProblems(r) ==
  IF r.err # "" THEN (IF r.err = "rejected-as-expected" THEN <<>> ELSE <<r.err>>)
  ELSE
  LET s0 == [a |-> r.hi, b |-> r.lo, c |-> r.hi]
      fin == Replay(s0, r.evals, 1)
  IN
  (IF \E i \in DOMAIN r.evals : r.evals[i].x < r.lo.x \/ r.evals[i].x > r.hi.x THEN <<"evaluation-outside-bracket">> ELSE <<>>) \o
  (IF ~AllBracketed(s0, r.evals, 1) THEN <<"bracket-lost">> ELSE <<>>) \o
  (IF r.evals # <<>> /\ r.ret # Xm(fin).x THEN <<"returned-value-is-not-the-better-bracket-end">> ELSE <<>>) \o
  (IF ~r.inside THEN <<"result-outside-bracket">> ELSE <<>>) \o
  (IF ~(r.accurate \/ r.exactzero) THEN <<"result-not-within-tolerance-of-a-root">> ELSE <<>>)

TraceChecked == PrintT(<<"VERDICT", SelectSeq([i \in 1..Len(BLog) |-> <<i, LaneProblems(BLog[i])>>], LAMBDA p : p[2] # <<>>)>>)
=============================================================================
