"""C10  Bivariate fit calibrates theta to the data's Kendall tau or refuses."""
import json
import math
from multiprocessing import Pool

import numpy as np

from .. import tlc as T

LEVEL = 'model_checking'

CFG = ('SPECIFICATION Spec\nCONSTANTS\n  MaxN = %d\n  TieLen = %d\n  TieAlpha = 3\nINVARIANT NeverSilentlyInvalid\n'
       'INVARIANT RefusalIsJustified\nINVARIANT FrankAlwaysCandidate\nINVARIANT Emit\nCHECK_DEADLOCK FALSE\n')


def pseudo_obs(case):
    x, y = np.array(case['x'], dtype=float), np.array(case['y'], dtype=float)
    m = max(x.max(), y.max())
    U = np.column_stack([x / (m + 1.0), y / (m + 1.0)])
    # the ranks are what the specification speaks of; the values that carry them vary from case to case (Kendall's tau and every
    # verdict are invariant under increasing maps of either column): thirds, sevenths, tenths ... instead of r / (m + 1) only
    k = int(len(x) + x.sum() + 2 * y.sum()) % 5
    if k == 4 and x.max() > x.min() and y.max() > y.min():
        # ranks stretched over the closed unit interval: the smallest observation is exactly 0.0, the largest exactly 1.0
        U = np.column_stack([(x - x.min()) / (x.max() - x.min()), (y - y.min()) / (y.max() - y.min())])
    elif k == 1:
        U = U * 0.7
    elif k == 2:
        U = 0.05 + 0.9 * U
    elif k == 3:
        U[:, 0] = U[:, 0] ** 2
        U[:, 1] = 0.1 + 0.8 * U[:, 1]
    return U


def frank_tau(theta):
    from scipy import integrate
    if theta == 0:
        return 0.0
    a = abs(theta)
    d1 = integrate.quad(lambda t: t / math.expm1(t) if t > 0 else 1.0, 0.0, a, limit=200)[0] / a
    t = 1.0 - 4.0 / a * (1.0 - d1)
    return t if theta > 0 else -t


def frank_limit(tau):
    """admissible Debye residual of a Frank calibration: least_squares stops at a cost of ~1e-8, which around tau = 0 (flat relation)
    leaves up to 2e-3; for |tau| >= 0.05 the unchanged code stays below 2e-6"""
    return 5e-3 if abs(tau) < 0.05 else 2e-5


def perm_with_inversions(n, k):
    """a permutation of 1..n with exactly k inversions (greedy Lehmer code)"""
    code = []
    for i in range(n):
        c = min(k, n - 1 - i)
        code.append(c)
        k -= c
    pool = list(range(1, n + 1))
    return [pool.pop(c) for c in code]


def given_cases(seed, count):
    """random longer rank columns: small and large |tau|, with and without ties"""
    rs = np.random.RandomState(seed)
    out = []
    for i in range(count):
        n = int(rs.choice([8, 12, 20, 35]))
        base = np.arange(1, n + 1)
        y = base.copy()
        k = int(rs.choice([1, 2, 3, n // 2, n]))          # number of random transpositions: tau from ~1 down to ~0
        for _ in range(k):
            a, b = rs.randint(n, size=2)
            y[a], y[b] = y[b], y[a]
        if rs.uniform() < 0.3:
            y = y[::-1].copy()
        x = base.copy()
        if i % 3 == 0:                                      # ties
            x = (x + 1) // 2
            y = (y + 2) // 3
        out.append({'x': [int(v) for v in x], 'y': [int(v) for v in y]})
    # nearly monotone columns: the identity with one to three neighbouring exchanges, both directions (|tau| from 0.97 to 0.997)
    for n, swaps in ((16, 1), (20, 1), (22, 1), (25, 1), (30, 2), (35, 1), (40, 3), (50, 4)):
        y = list(range(1, n + 1))
        for k in range(swaps):
            a = 2 + 3 * k + int(rs.randint(2))
            y[a], y[a + 1] = y[a + 1], y[a]
        out.append({'x': list(range(1, n + 1)), 'y': y})
        out.append({'x': list(range(1, n + 1)), 'y': y[::-1]})
    # long columns whose Kendall tau is negative by a hair (concordant and discordant pairs differ by one or two): Clayton and Gumbel
    # have no admissible parameter however small the deficit is
    for n, deficit in ((450, 1), (452, 2)):
        n0 = n * (n - 1) // 2
        inv = (n0 + deficit) // 2              # number of discordant pairs; S = n0 - 2 inv = -deficit (n0 + deficit is even here)
        if (n0 + deficit) % 2 == 0:
            out.append({'x': list(range(1, n + 1)), 'y': perm_with_inversions(n, inv)})
    # constant columns of several lengths (the values come from pseudo_obs: 0.175, 0.5, 0.275, 1/16 ...)
    for n in (3, 5, 6, 7, 10, 12, 20, 33):
        for c in (1, 2, 3):
            p = [int(v) for v in rs.permutation(n) + 1]
            out.append({'x': [c] * n, 'y': p})
            out.append({'x': p, 'y': [c] * n})
        out.append({'x': [2] * n, 'y': [1] * n})
    # Kendall tau exactly 0 on longer columns (the boundary between "Frank only" and "several candidates")
    want = max(12, 2 * count // 3)
    while want:
        n = int(rs.choice([8, 9, 12, 16, 20, 24]))
        y = rs.permutation(n) + 1
        sgn = np.sign(y[None, :] - y[:, None])
        if int(np.triu(sgn, 1).sum()) == 0:
            out.append({'x': list(range(1, n + 1)), 'y': [int(v) for v in y]})
            want -= 1
    return out


def get_cases(ctx, maxn, tielen, extra=()):
    import os
    wd = T.workdir()
    kf = os.path.join(wd, 'given.json')
    T.dump_json(kf, list(extra))
    try:
        r = ctx.tlc('KendallFit n<=%d ties<=%d' % (maxn, tielen), 'KendallFit', CFG % (maxn, tielen), workers=1, timeout=1500,
                    env={'KENDALL_CASES': kf})
    finally:
        import shutil
        shutil.rmtree(wd, ignore_errors=True)
    out = []
    for c in r.tagged('CASE'):
        c = c[0]
        c['cands'] = sorted(c['cands']['__set__']) if isinstance(c['cands'], dict) else sorted(c['cands'])
        out.append(c)
    return out


def _check(case):
    """returns list of (family, problem, detail)"""
    from copulas.bivariate import Clayton, Frank, Gumbel
    cls = {'CLAYTON': Clayton, 'FRANK': Frank, 'GUMBEL': Gumbel}
    X = pseudo_obs(case)
    s, d1, d2 = case['s'], case['d1'], case['d2']
    probs = []
    exp_tau = None if d1 == 0 or d2 == 0 else s / math.sqrt(d1 * d2)
    probe = np.array([[0.3, 0.4], [0.7, 0.2], [0.5, 0.5]])
    for fam in ('CLAYTON', 'FRANK', 'GUMBEL'):
        v = case['verdict'][fam]
        if fam == 'FRANK' and exp_tau is not None and abs(abs(exp_tau) - 1.0) < 1e-12:
            continue        # Frank on perfectly (anti-)monotone data: tau is outside (-1, 1), not demanded by C10
        m = cls[fam]()
        has_past = bool((len(X) + case['s']) % 2)
        if has_past:
            # every second model is an instance with a past: fitted to concordant data (admissible for every family) and queried
            past = np.column_stack([np.linspace(0.1, 0.9, 9), np.array([0.15, 0.1, 0.3, 0.45, 0.4, 0.6, 0.8, 0.7, 0.95])])
            try:
                m.fit(past)
                m.cumulative_distribution(probe.copy())
                m.partial_derivative(probe.copy())
            except Exception:
                pass
        try:
            m.fit(X.copy())
            raised = None
        except ValueError:
            raised = 'ValueError'
        except Exception as ex:
            raised = type(ex).__name__
        tau_is_one = (s > 0 and s * s == d1 * d2)
        if tau_is_one and fam in ('CLAYTON', 'GUMBEL'):
            # tau-b is exactly 1 but floating point yields 1 - 1e-16: refusing, theta = inf or an astronomically
            # large theta are all the same answer
            if raised is None and not (math.isinf(float(m.theta)) or float(m.theta) >= 1e12):
                probs.append((fam, 'theta-is-not-the-calibration-of-tau', 'tau=1 theta=%r' % m.theta))
            continue
        if v == 'refuse' and raised is not None:
            # asked again with the same data, the object refuses again (whatever the first attempt left behind)
            try:
                m.fit(X.copy())
                probs.append((fam, 'inadmissible-fit-accepted', 'second attempt with the same data: tau=%r theta=%r' % (exp_tau, m.theta)))
            except ValueError:
                pass
            except Exception as ex:
                probs.append((fam, 'refused-with-' + type(ex).__name__, 'second attempt'))
        if v == 'refuse':
            if raised is None:
                probs.append((fam, 'inadmissible-fit-accepted', 'tau=%r theta=%r' % (exp_tau, m.theta)))
            elif raised != 'ValueError':
                probs.append((fam, 'refused-with-' + raised, ''))
            elif not has_past:
                # a fresh model that refused its data is not silently usable afterwards (an instance with a past may keep
                # answering with the parameters of its earlier fit: the refusal was loud, which is what the property asks)
                try:
                    out = m.cumulative_distribution(probe.copy())
                    probs.append((fam, 'refused-model-answers-queries', repr(out)))
                except Exception:
                    pass
            continue
        if raised is not None:
            if v == 'refuse-or-tiny' and raised == 'ValueError':
                continue
            probs.append((fam, 'admissible-fit-raised-' + raised, 'tau=%r' % exp_tau))
            continue
        tau, theta = float(m.tau), float(m.theta)
        if abs(tau - exp_tau) > 1e-12:
            probs.append((fam, 'tau-is-not-kendall-tau-b', 'got %r expected %r' % (tau, exp_tau)))
        # Kendall's tau only looks at the order of the values: the same ranks squeezed into an interval of width 1e-7 around 0.5
        # (neighbouring values ~1e-9 apart) have the same tau-b and so the same theta
        m2 = cls[fam]()
        try:
            m2.fit(0.5 + (X - 0.5) * 1e-7)
            if abs(float(m2.tau) - exp_tau) > 1e-12 or not (float(m2.theta) == theta or abs(float(m2.theta) - theta) <= 1e-9 * max(1.0, abs(theta))):
                probs.append((fam, 'tau-depends-on-more-than-the-order-of-the-values', 'squeezed columns: tau %r theta %r instead of %r / %r' % (float(m2.tau), float(m2.theta), exp_tau, theta)))
        except Exception as ex:
            probs.append((fam, 'tau-depends-on-more-than-the-order-of-the-values', 'squeezed columns raised %s' % type(ex).__name__))
        if fam == 'CLAYTON':
            et = math.inf if abs(exp_tau - 1.0) < 1e-15 else 2.0 * exp_tau / (1.0 - exp_tau)
        elif fam == 'GUMBEL':
            et = 1.0 / (1.0 - exp_tau)
        else:
            et = None
        if et is not None:
            ok = (theta == et) if math.isinf(et) else abs(theta - et) <= 1e-9 * max(1.0, abs(et))
            rat = case['theta'][fam]
            if ok and rat != [0, 0] and rat[1] != 0 and abs(theta * rat[1] - rat[0]) > 1e-9 * max(1.0, abs(rat[0])):
                ok = False
            if not ok:
                probs.append((fam, 'theta-is-not-the-calibration-of-tau', 'got %r expected %r' % (theta, et)))
        else:
            if theta == 0 or math.isnan(theta):
                probs.append((fam, 'inadmissible-theta', repr(theta)))
            else:
                res = abs(frank_tau(theta) - exp_tau)
                lim = frank_limit(exp_tau)
                if res > lim:
                    probs.append((fam, 'theta-is-not-the-calibration-of-tau', 'Debye residual %.3g at tau %r theta %r' % (res, exp_tau, theta)))
        # an accepted model is usable: its CDF answers on interior points with values in [0, 1]
        # (for |tau| <= 0.8, the range for which the families' formulas are specified, C06/C07)
        if abs(exp_tau) > 0.8:
            continue
        try:
            out = np.asarray(m.cumulative_distribution(probe.copy()), dtype=float)
            if not (np.all(np.isfinite(out)) and np.all(out >= -1e-12) and np.all(out <= 1 + 1e-12)):
                probs.append((fam, 'accepted-model-invalid-cdf', repr(out)))
        except Exception as ex:
            probs.append((fam, 'accepted-model-unusable-' + type(ex).__name__, 'tau=%r theta=%r' % (exp_tau, theta)))
    # out-of-range values are rejected
    return probs


def _bucket(case):
    s, d1, d2 = case['s'], case['d1'], case['d2']
    if d1 == 0 or d2 == 0:
        return 'constant-column'
    if s == 0:
        return 'tau=0'
    if s * s == d1 * d2:
        return 'tau=+1' if s > 0 else 'tau=-1'
    ties = 'ties' if (d1 != case['n0'] or d2 != case['n0']) else 'noties'
    if abs(s) / math.sqrt(d1 * d2) > 0.9943:
        # beyond |tau| = 0.99438 Frank's parameter would exceed log(max float) = 709.78, the bound of the library's solver (finding F34)
        return ('tau>0' if s > 0 else 'tau<0') + ',saturation(|tau|>0.9943)'
    return ('tau>0' if s > 0 else 'tau<0') + ',' + ties


def run(ctx):
    quick = ctx.tier == 'quick'
    ctx.rule = ('TLC (KendallFit) enumerates every pair of columns given by ranks: all permutations of n = 2..%s (no ties) and all '
                '(sorted x, arbitrary y) over a 3-letter alphabet up to length %s (ties, constant columns), computes S, D1, D2 and the '
                'verdict per family in integers (exact rational theta without ties); each case is fitted by the real Clayton, Frank and '
                'Gumbel on pseudo-observations with exactly those ranks; plus random longer columns (n up to 35) whose S, D1, D2 TLC computes the same way; plus out-of-range inputs.  non-trivial = non-constant columns; '
                'distinct by (x, y)') % (('6', '4') if quick else ('7', '5'))
    ctx.assumptions = ['Frank calibration is judged by an independent quadrature of the Debye relation (residual <= 2e-5, and <= 5e-3 for |tau| < 0.05: least_squares stops at a cost of about 1e-8, and around tau = 0, where the relation is flat, '
                       'the unchanged code is off by up to 1.8e-3; at tau = 0 itself a refusal is accepted too)',
                       'Frank on data with |tau| = 1 is outside the property (tau in (-1,1))']
    cases = get_cases(ctx, 6 if quick else 7, 4 if quick else 5, given_cases(ctx.seed + 1, 80 if quick else 600))
    with Pool(16) as pool:
        res = pool.map(_check, cases, chunksize=16)
    ctx.traces += len(cases)
    for case, probs in zip(cases, res):
        ctx.case(json.dumps([case['x'], case['y']]), nontrivial=(case['d1'] > 0 and case['d2'] > 0))
        for fam, p, detail in probs:
            ctx.violation('C10|%s|%s|%s' % (fam.capitalize(), p, _bucket(case)),
                          '%s.fit: %s (%s) on ranks x=%s y=%s' % (fam.capitalize(), p, detail, case['x'], case['y']),
                          dict(case, rerun=['harness.props.C10._check', case]))
    ctx.sample(cases[len(cases) // 3])
    ctx.sample(cases[-5])
    # values outside [0, 1]
    from copulas.bivariate import Clayton, Frank, Gumbel
    rs = np.random.RandomState(ctx.seed)
    for cls in (Clayton, Frank, Gumbel):
        for bad in (-1e-9, 1.0000001, 2.0, -0.5, -1e-17, -5e-324, float(np.nextafter(1.0, 2.0)), float('inf')):
            X = rs.uniform(0.05, 0.95, size=(12, 2))
            X[:, 1] = (X[:, 0] + X[:, 1]) / 2
            X[int(rs.randint(12)), int(rs.randint(2))] = bad
            if abs(hash(repr(bad))) % 2:
                # the other column is far from uniform (clustered in a narrow band): only a warning is due for that
                col = 1 - int(np.argwhere(X == bad)[0][1]) if np.isfinite(bad) else 0
                X[:, col] = 0.4 + 0.05 * rs.uniform(size=12)
            ctx.case('oob|%s|%r' % (cls.__name__, bad))
            try:
                cls().fit(X)
                ctx.violation('C10|%s|out-of-range-accepted|value-outside-unit-interval' % cls.__name__,
                              '%s.fit accepted a value %r outside [0,1]' % (cls.__name__, bad), {'X': X.tolist()})
            except ValueError:
                pass
            except Exception as ex:
                ctx.violation('C10|%s|out-of-range-raised-%s|value-outside-unit-interval' % (cls.__name__, type(ex).__name__),
                              '%s.fit raised %s for a value outside [0,1]' % (cls.__name__, type(ex).__name__), {'X': X.tolist()})
    # extended-precision columns: values that differ, or leave [0, 1], by less than a double's resolution are different values there
    if np.finfo(np.longdouble).eps < np.finfo(float).eps:
        from scipy import stats
        base = np.longdouble(0.5)
        step = np.longdouble(2.0) ** -60
        xs = np.array([base + step * k for k in (0, 3, 1, 2, 5, 4)], dtype=np.longdouble)
        ys = np.array([0.2, 0.5, 0.3, 0.9, 0.6, 0.8], dtype=np.longdouble)
        X = np.column_stack([xs, ys])
        conc = sum(np.sign(xs[j] - xs[i]) * np.sign(ys[j] - ys[i]) for i in range(6) for j in range(i + 1, 6))
        tau = float(conc) / 15.0
        for cls in (Clayton, Frank, Gumbel):
            ctx.case('longdouble|%s' % cls.__name__)
            try:
                m = cls()
                m.fit(X.copy())
                if abs(float(m.tau) - tau) > 1e-12:
                    ctx.violation('C10|%s|tau-is-not-kendall-tau-b|extended-precision' % cls.__name__,
                                  '%s.fit on longdouble columns 0.5 + k 2^-60: tau %r instead of %r' % (cls.__name__, float(m.tau), tau), {'X': [[float(a), float(b)] for a, b in X]})
            except Exception as ex:
                ctx.violation('C10|%s|admissible-fit-raised-%s|extended-precision' % (cls.__name__, type(ex).__name__),
                              '%s.fit raised on longdouble columns with tau %r' % (cls.__name__, tau), {})
        bad = X.copy()
        bad[2, 0] = np.longdouble(1.0) + np.longdouble(2.0) ** -62
        for cls in (Clayton, Frank, Gumbel):
            ctx.case('longdouble-oob|%s' % cls.__name__)
            try:
                cls().fit(bad.copy())
                ctx.violation('C10|%s|out-of-range-accepted|extended-precision' % cls.__name__, '%s.fit accepted 1 + 2^-62 (longdouble)' % cls.__name__, {})
            except ValueError:
                pass
            except Exception as ex:
                ctx.violation('C10|%s|out-of-range-raised-%s|extended-precision' % (cls.__name__, type(ex).__name__), 'longdouble value above 1', {})
    ctx.exhaustive = True
