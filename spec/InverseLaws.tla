-------------------------------- MODULE InverseLaws --------------------------------
(***************************************************************************)
(* C08: percent_point(y, v) inverts the conditional CDF.                      *)
(* Observation (one family, one theta; scaled by S): U[i][j] = ppf(y_i, v_j), *)
(* R[i][j] = h(U[i][j], v_j) (the implementation's own conditional CDF at the *)
(* returned point), Y (the probabilities), err[i][j] (text, "" = returned),   *)
(* batch pairs (value inside a vector call vs value of the one-element call). *)
(***************************************************************************)
EXTENDS Laws, Json, IOUtils, TLCExt
Obs == JsonDeserialize(IOEnv.TRACE_FILE)
VARIABLE k
Init == k = 1
Next == k < Len(Obs) /\ k' = k + 1
Spec == Init /\ [][Next]_k

Returned(o, i, j) == o.err[i][j] = ""
Problems(o) ==
  (IF \E i \in DOMAIN o.U : \E j \in DOMAIN o.U[i] : ~Returned(o, i, j) THEN <<"percent_point-raised">> ELSE <<>>) \o
  (IF \E i \in DOMAIN o.U : \E j \in DOMAIN o.U[i] : Returned(o, i, j) /\ (o.U[i][j] = NAN \/ o.U[i][j] < 0 \/ o.U[i][j] > o.S)
      THEN <<"result-outside-unit-interval">> ELSE <<>>) \o
  (IF \E i \in DOMAIN o.U : \E j \in DOMAIN o.U[i] : Returned(o, i, j) /\ o.U[i][j] # NAN /\ (o.R[i][j] = NAN \/ Abs(o.R[i][j] - o.Y[i]) > o.tol)
      THEN <<"h-of-result-is-not-y">> ELSE <<>>) \o
  (IF \E j \in DOMAIN o.U[1] : \E i \in 1..(Len(o.U) - 1) :
        Returned(o, i, j) /\ Returned(o, i + 1, j) /\ o.U[i][j] # NAN /\ o.U[i + 1][j] # NAN /\ o.U[i + 1][j] < o.U[i][j] - o.tol
      THEN <<"not-monotone-in-y">> ELSE <<>>) \o
  (IF \E q \in DOMAIN o.batch : o.batch[q].a # o.batch[q].b THEN <<"not-evaluated-element-wise">> ELSE <<>>)

TraceChecked == k = 1 => PrintT(<<"VERDICT", SelectSeq([i \in 1..Len(Obs) |-> <<i, Problems(Obs[i])>>], LAMBDA p : p[2] # <<>>)>>)
=============================================================================
