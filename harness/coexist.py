"""Coexistence of model objects of different classes in one process (spec/Coexist.tla).

TLC emits behaviours over two objects whose classes are chosen freely from one family of classes (bivariate families, univariate
marginals, multivariate models); each behaviour is executed on real objects and every answer is compared with the answer the same
term <<class, data>> gets from an object that lives ALONE in a fresh process.  Equal terms must have equal projections: C19's "the
state of a model after fit(X) depends only on its constructor arguments and X" for a process that holds more than one model.
"""
import json
import multiprocessing
import os

import numpy as np

from . import bindings as B
from . import tlc as T

CFG = ('SPECIFICATION Spec\nCONSTANTS\n  Classes = {%s}\n  Data = {%s}\n  MaxLen = %d\n  Shared = %s\n  BrokenShared = %s\n%s\nCHECK_DEADLOCK FALSE\n')
DESIGN = 'INVARIANT NoInterference\nPROPERTY OwnFitOnly'

FAMILIES = {
    'bivariate': (('Clayton', 'Frank', 'Gumbel'), ('d1', 'd2', 't2')),
    'univariate': (('GaussianUnivariate', 'GaussianKDE', 'TruncatedGaussian', 'BetaUnivariate', 'Wrapper'), ('A', 'B', 'K1')),
    'multivariate': (('GaussProto', 'GaussKDE', 'VineCenter', 'VineRegular'), ('A', 'B')),
}


def q(xs):
    return ', '.join('"%s"' % x for x in xs)


# ---- real objects ------------------------------------------------------------------------------
def _build(fam, classes, shared):
    """the two objects of a behaviour; with `shared` the prototype / candidate objects a caller hands in are the same objects for both"""
    import copulas.bivariate as cb
    import copulas.univariate as U
    from copulas.multivariate import GaussianMultivariate, VineCopula
    cands = [U.GaussianUnivariate(), U.GaussianKDE(bw_method='silverman'), U.TruncatedGaussian()] if shared else None
    proto = U.GaussianUnivariate() if shared else None
    out = []
    for c in classes:
        if fam == 'bivariate':
            out.append(getattr(cb, c)())
        elif fam == 'univariate':
            if c == 'Wrapper':
                out.append(U.Univariate(candidates=cands if shared else [U.GaussianUnivariate(), U.GaussianKDE(bw_method='silverman'), U.TruncatedGaussian()]))
            else:
                out.append(getattr(U, c)())
        else:
            if c == 'GaussProto':
                out.append(GaussianMultivariate(distribution=proto if shared else U.GaussianUnivariate()))
            elif c == 'GaussKDE':
                out.append(GaussianMultivariate(distribution=U.GaussianKDE))
            else:
                out.append(VineCopula('center' if c == 'VineCenter' else 'regular'))
    return out


def _fit(fam, m, d):
    if fam == 'bivariate':
        if d == 't2':           # parameterised, not fitted: the same parameter VALUE for every family
            m.theta = 2.0
            m.tau = {'Clayton': 0.5, 'Gumbel': 0.5, 'Frank': 0.2138945}[type(m).__name__]
        else:
            m.fit(B.bi_data('A' if d == 'd1' else 'B').copy())
    elif fam == 'univariate':
        m.fit(B.uni_data(d).copy())
    else:
        df = B.mv_data(d, 3).copy()
        if type(m).__name__ == 'VineCopula':
            B.poison([(j, j) for j in range(1, 4)], 0.0)
        m.fit(df)


def _num(x):
    a = np.asarray(x, dtype=float).ravel()
    return [None if np.isnan(v) else (1e300 if v == np.inf else -1e300 if v == -np.inf else float(v)) for v in a]


def _ask(fam, m, what):
    """the projection of a Query / Sample: lists of floats, or the name of the exception"""
    out = {}

    def put(name, f):
        try:
            with np.errstate(all='ignore'):
                out[name] = _num(f())
        except Exception as ex:
            out[name] = 'ERR:' + type(ex).__name__
    st = np.random.get_state()
    try:
        if what == 'Sample':
            n = 4 if fam != 'multivariate' else 2

            def draw():
                m.set_random_state(7)
                s = m.sample(n)
                return s.to_numpy(dtype=float) if hasattr(s, 'to_numpy') else s
            put('sample', draw)
        elif fam == 'bivariate':
            pts = np.column_stack([np.array([0.1, 0.5, 0.9, 0.3, 0.62, 0.05]), np.array([0.2, 0.6, 0.8, 0.4, 0.33, 0.97])])
            put('cdf', lambda: m.cumulative_distribution(pts.copy()))
            put('pdf', lambda: m.probability_density(pts.copy()))
            put('h', lambda: m.partial_derivative(pts.copy()))
            put('ppf', lambda: m.percent_point(B.BI_Y.copy(), B.BI_V.copy()))
            put('theta', lambda: [m.theta, m.tau])
        elif fam == 'univariate':
            x = np.array([0.5, 2.0, 3.5, 4.0, 9.0, 47.0, 55.0])
            put('cdf', lambda: m.cumulative_distribution(x.copy()))
            put('pdf', lambda: m.probability_density(x.copy()))
            put('logpdf', lambda: m.log_probability_density(x.copy()))
            put('ppf', lambda: m.percent_point(np.array([0.05, 0.5, 0.9])))
        else:
            pr = B.mv_probe(3).iloc[:3]
            if type(m).__name__ == 'VineCopula':
                put('pdf', lambda: m.probability_density(pr.copy()))
                put('trees', lambda: [v for t in m.trees for e in t.edges for v in (e.L, e.R, float(e.theta))])
            else:
                put('pdf', lambda: m.probability_density(pr.copy()))
                put('logpdf', lambda: m.log_probability_density(pr.copy()))

                def cdf():
                    np.random.seed(3)
                    return m.cumulative_distribution(pr.copy())
                put('cdf', cdf)
                put('corr', lambda: m.correlation.to_numpy())
    finally:
        np.random.set_state(st)
    return out


def _execute(job):
    fam, classes, hist = job
    shared = any(ev['e'] == 'Share' for ev in hist)
    obs = []
    try:
        objs = _build(fam, classes, shared)
    except Exception as ex:
        return [('setup', 'ERR:' + type(ex).__name__)] * len(hist)
    par = [None, None]
    for ev in hist:
        o = ev['o'] - 1
        if ev['e'] == 'Share':
            obs.append(None)
        elif ev['e'] == 'Fit':
            try:
                _fit(fam, objs[o], ev['d'])
                par[o] = ev['d']
                obs.append(None)
            except Exception as ex:
                par[o] = ev['d'] + '!' + type(ex).__name__
                obs.append(None)
        else:
            obs.append(('%s|%s|%s' % (classes[o], par[o], ev['e']), _ask(fam, objs[o], ev['e'])))
    return obs


def _solo(job):
    """reference: the object alone in a fresh (forked) process"""
    fam, c, d = job
    r, w = os.pipe()
    pid = os.fork()
    if pid == 0:
        try:
            os.close(r)
            res = {}
            try:
                m = _build(fam, [c], False)[0]
                tag = d
                try:
                    _fit(fam, m, d)
                except Exception as ex:
                    tag = d + '!' + type(ex).__name__
                for what in ('Query', 'Sample'):
                    res['%s|%s|%s' % (c, tag, what)] = _ask(fam, m, what)
            except BaseException as ex:         # noqa
                res = {'harness': 'ERR:' + type(ex).__name__}
            os.write(w, json.dumps(res).encode())
        finally:
            os._exit(0)
    os.close(w)
    buf = b''
    while True:
        chunk = os.read(r, 65536)
        if not chunk:
            break
        buf += chunk
    os.close(r)
    os.waitpid(pid, 0)
    return json.loads(buf.decode()) if buf else {}


def _same(a, b):
    if isinstance(a, str) or isinstance(b, str):
        return a == b
    if len(a) != len(b):
        return False
    for x, y in zip(a, b):
        if (x is None) != (y is None):
            return False
        if x is not None and abs(x - y) > 1e-9 * max(1.0, abs(x), abs(y)):
            return False
    return True


def run_coexistence(ctx, prop):
    quick = ctx.tier == 'quick'
    # design: non-interference holds on the specification, and is refuted on the design of a memo shared through the base class
    fam0 = FAMILIES['bivariate']
    ctx.tlc('Coexist: non-interference (design)', 'Coexist', CFG % (q(fam0[0]), q(fam0[1]), 4 if quick else 5, 'TRUE', 'FALSE', DESIGN), timeout=900)
    r = ctx.tlc('Coexist: a memo on the base class is refuted', 'Coexist', CFG % (q(fam0[0][:2]), q(fam0[1][:2]), 4, 'FALSE', 'TRUE', 'INVARIANT NoInterference'),
                must_hold=False, timeout=600)
    if r.ok:
        raise T.TlcError('Coexist: the broken design does not violate NoInterference (vacuous property?)')
    total = mism = 0
    per_family = {}
    mp = multiprocessing.get_context('fork')
    for fam, (classes, data) in FAMILIES.items():
        behs = {}
        if fam == 'bivariate' and not quick:      # exhaustive at the small bound
            r = ctx.tlc('Coexist.gen %s' % fam, 'Coexist', CFG % (q(classes), q(data), 3, 'FALSE', 'FALSE', 'INVARIANT Emit'), workers=1, timeout=900)
            for b in r.tagged('BEH'):
                behs[json.dumps(b, sort_keys=True)] = b
        num = {'bivariate': 500, 'univariate': 400, 'multivariate': 80}[fam] * (1 if quick else 6)
        r = T.run('Coexist', CFG % (q(classes), q(data), 6, 'TRUE' if fam != 'bivariate' else 'FALSE', 'FALSE', 'INVARIANT Emit'), workers=1,
                  simulate='num=%d' % num, depth=8, seed=ctx.seed + 11, timeout=900)
        ctx.note_tlc('Coexist.simulate %s' % fam, r)
        for b in r.tagged('BEH'):
            behs[json.dumps(b, sort_keys=True)] = b
        keys = sorted(behs)
        jobs = [(fam, list(behs[k][0]), behs[k][1]) for k in keys]
        with mp.Pool(16) as pool:
            ref = {}
            for part in pool.map(_solo, [(fam, c, d) for c in classes for d in data]):
                ref.update(part)
            outs = pool.map(_execute, jobs, chunksize=max(1, len(jobs) // 64))
        if 'harness' in ref:
            raise RuntimeError('coexistence reference run failed: %s' % ref['harness'])
        per_family[fam] = len(jobs)
        for (f, classes_b, hist), obs in zip(jobs, outs):
            total += 1
            two = len({ev['o'] for ev in hist if ev['e'] == 'Fit'}) == 2
            ctx.case('coexist|%s|%s|%s' % (fam, ','.join(classes_b), json.dumps(hist, sort_keys=True)), nontrivial=two)
            for i, (ev, ob) in enumerate(zip(hist, obs)):
                if ob is None:
                    continue
                term, proj = ob
                want = ref.get(term)
                if want is None:        # the fit of this object raised here and not (or differently) when the object was alone
                    mism += 1
                    ctx.violation('%s|coexistence|%s|fit-outcome-differs-from-the-object-alone|next-to-%s' % (prop, term.split('|')[0], classes_b[2 - ev['o']]),
                                  'a behaviour with a %s and a %s: %s has no counterpart in the run of the object alone' % (classes_b[0], classes_b[1], term),
                                  {'family': fam, 'classes': classes_b, 'behaviour': hist, 'step': i + 1})
                    break
                bad = [k for k in sorted(set(proj) | set(want)) if not _same(proj.get(k, 'missing'), want.get(k, 'missing'))]
                if bad:
                    mism += 1
                    other = classes_b[2 - ev['o']]
                    ctx.violation('%s|coexistence|%s|%s-differs-from-the-object-alone|next-to-%s' % (prop, term.split('|')[0], '+'.join(bad), other),
                                  'step %d of a behaviour with a %s and a %s: the answer of %s (%s) differs from the answer of the same model alone in a fresh process (%s)' %
                                  (i + 1, classes_b[0], classes_b[1], term, ev['e'], ', '.join(bad)),
                                  {'family': fam, 'classes': classes_b, 'behaviour': hist, 'step': i + 1, 'observed': proj, 'alone': want})
                    break
    print('coexistence behaviours executed: %s' % json.dumps(per_family))
    ctx.extra['coexistence_behaviours'] = per_family
    ctx.extra['coexistence_mismatches'] = mism
    ctx.traces += total
