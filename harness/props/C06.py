"""C06  Clayton, Frank and Gumbel CDFs are genuine Archimedean copulas."""
from multiprocessing import Pool

import numpy as np

from .. import observe_bi as O

LEVEL = 'exploration'
GS = 100000        # generator values are scaled by 1e5 and compared up to 2e3


def _observe(job):
    fam, pos, theta, nextra = job[:4]
    m = O.make(fam, theta, as_int=(len(job) > 4 and bool(job[4])))
    g = O.grid(nextra)
    n = len(g)
    X = O.mesh(g)
    with np.errstate(all='ignore'):
        C = np.asarray(m.cumulative_distribution(X.copy()), dtype=float).reshape(n, n)
        gen = np.asarray(m.generator(g.copy()), dtype=float)
        genC = np.asarray(m.generator(C.ravel().copy()), dtype=float).reshape(n, n)
        g1 = float(np.ravel(m.generator(np.array([1.0])))[0])
    lim = 2.0e3 * GS
    gfx = O.fx(gen, GS, lim)
    gcfx = O.fx(genC, GS, lim)
    # batch composition: the same points one row at a time, in reversed order, and mixed with boundary rows
    rs = np.random.RandomState(pos * 7 + len(fam))
    idx = rs.choice(n * n, size=36, replace=False)
    idx = np.concatenate([idx, [0, n - 1, n * (n - 1), n * n - 1, n + 1]])
    rowwise = []
    big = O.fx(C.ravel())
    with np.errstate(all='ignore'):
        for i in idx[:12]:
            v = m.cumulative_distribution(X[i:i + 1].copy())
            rowwise.append({'a': int(big[i]), 'b': int(O.fx(np.ravel(v))[0])})
        sub = X[idx]
        rev = np.asarray(m.cumulative_distribution(sub[::-1].copy()), dtype=float)[::-1]
        mixed_in = np.vstack([np.array([[0.0, 0.3], [1.0, 1.0]]), sub, np.array([[0.0, 0.0], [0.7, 0.0]])])
        mixed = np.asarray(m.cumulative_distribution(mixed_in.copy()), dtype=float)[2:-2]
        zeros_first = np.vstack([np.array([[0.0, 0.0]]), sub])
        zf = np.asarray(m.cumulative_distribution(zeros_first.copy()), dtype=float)[1:]
        # rows with positive coordinates so small that powers of them overflow (1e-300, the smallest denormal) next to ordinary rows
        tiny_in = np.vstack([np.array([[1e-300, 0.4], [0.6, 5e-324]]), sub, np.array([[1e-200, 1e-250], [3e-39, 0.9]])])
        tiny = np.asarray(m.cumulative_distribution(tiny_in.copy()), dtype=float)[2:-2]
        # the same array evaluated twice (rows on the edges of the square among them): the second answer is the first
        twice_in = np.vstack([np.array([[0.0, 0.3], [0.6, 0.0], [0.0, 0.0]]), sub])
        m.cumulative_distribution(twice_in)
        twice = np.asarray(m.cumulative_distribution(twice_in), dtype=float)[3:]
        # a work buffer: the same array object evaluated, overwritten in place and evaluated again
        idx2 = rs.choice(n * n, size=len(idx), replace=False)
        buf = sub.copy()
        m.cumulative_distribution(buf)
        buf[:, :] = X[idx2]
        wb = np.asarray(m.cumulative_distribution(buf), dtype=float)
    for j, i in enumerate(idx2):
        rowwise.append({'a': int(big[i]), 'b': int(O.fx(wb)[j])})
    with np.errstate(all='ignore'):
        pass
    with np.errstate(all='ignore'):
        wide = np.zeros((len(sub), 5))
        wide[:, 1], wide[:, 3] = sub[:, 0], sub[:, 1]
        strided = np.asarray(m.cumulative_distribution(wide[:, 1::2]), dtype=float)              # a strided view
        fortran = np.asarray(m.cumulative_distribution(np.asfortranarray(sub.copy())), dtype=float)   # column-major memory
    for arr in (rev, mixed, zf, tiny, twice, strided, fortran):
        f = O.fx(arr)
        for j, i in enumerate(idx):
            rowwise.append({'a': int(big[i]), 'b': int(f[j])})
    zg = np.array([0.0, 1e-12, 1e-11, 1e-10, 1e-9, 1e-8, 1e-7, 1e-6])
    with np.errstate(all='ignore'):
        ZC = np.asarray(m.cumulative_distribution(O.mesh(zg)), dtype=float).reshape(len(zg), len(zg))
    ZS = 1e14
    # a batch whose V column (or U column) is all zero except one row must not zero the other rows
    return {'fam': fam, 'theta': '%.6g' % theta, 'chain': pos, 'S': O.S, 'G': O.fx(g).tolist(), 'C': O.fx(C).tolist(),
            'gs': GS, 'g': gfx.tolist(), 'gc': gcfx.tolist(), 'g1': int(O.fx(np.array([g1]), GS, lim)[0]), 'rowwise': rowwise,
            'ZG': O.fx(zg, ZS).tolist(), 'ZC': O.fx(ZC, ZS).tolist()}


def run(ctx):
    quick = ctx.tier == 'quick'
    nchain = 16 if quick else 64
    ctx.rule = ('for each family a chain of %d thetas across the whole range of the property (Clayton (0,8], Gumbel [1,5] incl. 1, Frank '
                '-18.2..18.2 without 0) the CDF is tabulated on a %s grid of [0,1]^2 containing 0, 1 and points within 1e-12, 1e-9, 1e-6 of '
                'them; TLC (CopulaLaws) checks grounded, margins, adjacent-cell 2-increasing, Frechet bounds, symmetry, the generator identity, '
                'generator monotone / zero at 1, ordering along the chain, and equality of batch values with row-by-row / reversed / '
                'boundary-mixed evaluations; LatticeLemmas is model-checked to justify the local forms.  non-trivial = every table; '
                'distinct by (family, theta)') % (nchain, '29x29' if quick else '60x60')
    ctx.assumptions = ['fixed point 1e-8 for CDF values (rounding slack 1-3 units), 1e-5 for generator values up to 2e3',
                       'between grid points nothing is checked']
    for n, m in ((4, 3), (4, 6), (4, 9)):
        ctx.tlc('LatticeLemmas N=%d M=%d' % (n, m), 'LatticeLemmas',
                'SPECIFICATION Spec\nCONSTANTS\n  N = %d\n  M = %d\nINVARIANT EveryRectangle\nINVARIANT FrechetBounds\nINVARIANT Monotone\n'
                'INVARIANT Lipschitz\nCHECK_DEADLOCK FALSE\n' % (n, m), timeout=600)
    if not quick:
        ctx.tlc('LatticeLemmas N=5 M=4', 'LatticeLemmas',
                'SPECIFICATION Spec\nCONSTANTS\n  N = 5\n  M = 4\nINVARIANT EveryRectangle\nINVARIANT FrechetBounds\nINVARIANT Monotone\n'
                'INVARIANT Lipschitz\nCHECK_DEADLOCK FALSE\n', timeout=1500, extra=['-maxSetSize', '3000000'])
    jobs = []
    for fam in O.FAMS:
        # whole-number parameters carried by integer objects take their place in the chain (Frank: -3 and 4; Clayton and Gumbel: 2 and 5)
        ints = {'Clayton': (2, 5), 'Gumbel': (2, 5), 'Frank': (-3, 4)}[fam]
        members = sorted([(th, 0) for th in O.chain(fam, nchain)] + [(float(t), 1) for t in ints])
        for pos, (th, as_int) in enumerate(members, 1):
            jobs.append((fam, pos, th, 0 if quick else 31, as_int))
    with Pool(16) as pool:
        obs = pool.map(O.Safe(_observe), jobs, chunksize=2)
    obs, jobs = O.split_raised(ctx, 'C06', obs, jobs, 'harness.props.C06._observe')
    if len(obs) < 6:        # (nearly) every observation raised: the violations are recorded, there is no table left to judge
        ctx.exhaustive = False
        return
    verdict = O.run_laws(ctx, 'CopulaLaws', 'CopulaLaws', obs)
    for o in obs:
        ctx.case('%s|%s' % (o['fam'], o['theta']))
    ctx.sample({'fam': obs[5]['fam'], 'theta': obs[5]['theta'], 'G': obs[5]['G'][:6], 'C_row_15': obs[5]['C'][14][:8]})
    ctx.extra['tables'] = len(obs)
    ctx.extra['cells'] = sum(len(o['C']) ** 2 for o in obs)
    for i, laws in verdict:
        o = obs[i]
        for law in laws:
            ctx.violation('C06|%s|%s|%s' % (o['fam'], law, O.theta_bucket(o['fam'], float(o['theta']))),
                          '%s CDF at theta=%s violates %s' % (o['fam'], o['theta'], law), {'fam': o['fam'], 'theta': o['theta'], 'law': law, 'rerun': ['harness.props.C06._observe', list(jobs[i])]})
    ctx.traces += len(obs)          # observation tables / samples of the real code judged by TLC
    ctx.exhaustive = False
