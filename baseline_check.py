"""Run the repository's baseline test command (guard off) and compare with BASELINE.json's stable_pass list."""
import json, os, subprocess, sys, tempfile
import xml.etree.ElementTree as ET
b = json.load(open('/root/.vp/BASELINE.json'))
out = tempfile.mktemp(suffix='.xml', dir='/tmp')
env = {k: v for k, v in os.environ.items() if k != 'COPULAS_VERIF'}
subprocess.run(b['cmd'].replace('<file>', out), shell=True, env=env, stdout=subprocess.DEVNULL, stderr=subprocess.DEVNULL)
passed = set()
for tc in ET.parse(out).getroot().iter('testcase'):
    if not any(c.tag in ('failure', 'error', 'skipped') for c in tc):
        passed.add(tc.get('classname') + '::' + tc.get('name'))
os.remove(out)
missing = [t for t in b['stable_pass'] if t not in passed]
print('baseline stable_pass: %d, passing now: %d, missing: %d' % (len(b['stable_pass']), len(passed), len(missing)))
for m in missing:
    print('  MISSING', m)
sys.exit(1 if missing else 0)
