"""C07  Copula density and conditional CDF are the derivatives of the CDF."""
from multiprocessing import Pool

import numpy as np

from .. import observe_bi as O

LEVEL = 'exploration'
LS = 1000000


def gl(n):
    x, w = np.polynomial.legendre.leggauss(n)
    return x, w


def _observe(job):
    fam, pos, theta, npts = job[:4]
    m = O.make(fam, theta, as_int=(len(job) > 4 and bool(job[4])))
    g = O.edge_grid(npts)
    n = len(g)
    X = O.mesh(g)
    x3, w3 = gl(3)
    x6, w6 = gl(6)
    with np.errstate(all='ignore'):
        C = np.asarray(m.cumulative_distribution(X.copy()), dtype=float).reshape(n, n)
        H = np.asarray(m.partial_derivative(X.copy()), dtype=float).reshape(n, n)
        Pd = np.asarray(m.probability_density(X.copy()), dtype=float).reshape(n, n)
        LP = np.asarray(m.log_probability_density(X.copy()), dtype=float)
        lo, hi = g[:-1], g[1:]
        mid, half = (lo + hi) / 2, (hi - lo) / 2
        # integral of h(u_i, .) over every v-cell
        hI = {}
        for nn, (xs, ws) in ((3, (x3, w3)), (6, (x6, w6))):
            vn = (mid[:, None] + half[:, None] * xs[None, :])            # cells x nodes
            out = np.zeros((n, n - 1))
            for i in range(n):
                pts = np.column_stack([np.full(vn.size, g[i]), vn.ravel()])
                hv = np.asarray(m.partial_derivative(pts), dtype=float).reshape(vn.shape)
                out[i] = half * (hv * ws[None, :]).sum(axis=1)
            hI[nn] = out
        hD = C[:, 1:] - C[:, :-1]
        # integral of c over every 2-D cell
        cI = {}
        for nn, (xs, ws) in ((3, (x3, w3)), (6, (x6, w6))):
            un = (mid[:, None] + half[:, None] * xs[None, :])
            U = un[:, None, :, None]
            V = un[None, :, None, :]
            UU, VV = np.broadcast_arrays(U, V)
            pts = np.column_stack([UU.ravel(), VV.ravel()])
            cv = np.asarray(m.probability_density(pts), dtype=float).reshape(UU.shape)
            W = ws[None, None, :, None] * ws[None, None, None, :]
            cI[nn] = (cv * W).sum(axis=(2, 3)) * half[:, None] * half[None, :]
        cD = C[1:, 1:] - C[1:, :-1] - C[:-1, 1:] + C[:-1, :-1]
        h1 = np.asarray(m.partial_derivative(np.column_stack([np.ones(n), g])), dtype=float)
        pmax = np.nanmax(np.abs(Pd)) if np.isfinite(Pd).any() else 1.0
        ps = 10.0 ** np.floor(np.log10(1.5e9 / max(pmax, 1e-12)))
        ps = min(ps, 1e8)
        # batch composition
        rs = np.random.RandomState(pos + 100 * len(fam))
        idx = rs.choice(n * n, size=24, replace=False)
        sub = X[idx]
        rowwise = []
        for name, f, big, sc in (('h', m.partial_derivative, H.ravel(), O.S), ('c', m.probability_density, Pd.ravel(), ps)):
            bigf = O.fx(big, sc)
            for i in idx[:8]:
                rowwise.append({'a': int(bigf[i]), 'b': int(O.fx(np.ravel(f(X[i:i + 1].copy())), sc)[0])})
            rev = np.asarray(f(sub[::-1].copy()), dtype=float)[::-1]
            ext = np.vstack([np.array([[1e-4, 1 - 1e-4], [1 - 1e-4, 1e-4]]), sub, np.array([[0.5, 1e-4]])])
            mix = np.asarray(f(ext.copy()), dtype=float)[2:-1]
            arrs = [rev, mix]
            if name == 'h':
                # the end points u = 0 and u = 1 (where h is 0 and 1) are evaluation points of the property too: rows carrying
                # them, ahead of, between and behind interior rows, must not disturb the interior rows
                k = len(sub) // 2
                ends = np.vstack([np.array([[0.0, 0.3], [1.0, 0.6]]), sub[:k], np.array([[1.0, 0.2], [0.0, 0.7]]), sub[k:], np.array([[1.0, 0.5]])])
                e = np.asarray(f(ends.copy()), dtype=float)
                arrs.append(np.concatenate([e[2:2 + k], e[4 + k:-1]]))
            for arr in arrs:
                ff = O.fx(arr, sc)
                for j, i in enumerate(idx):
                    rowwise.append({'a': int(bigf[i]), 'b': int(ff[j])})
            # a work buffer: the same array object is evaluated, overwritten in place with other rows and evaluated again - the
            # second result is that of the rows the array holds now
            idx2 = rs.choice(n * n, size=24, replace=False)
            buf = sub.copy()
            f(buf)
            buf[:, :] = X[idx2]
            ff = O.fx(np.asarray(f(buf), dtype=float), sc)
            for j, i in enumerate(idx2):
                rowwise.append({'a': int(bigf[i]), 'b': int(ff[j])})
        lplog = np.log(Pd.ravel())
    return {'fam': fam, 'theta': '%.6g' % theta, 'S': O.S, 'H': O.fx(H).tolist(),
            'hI6': O.fx(hI[6]).tolist(), 'hI3': O.fx(hI[3]).tolist(), 'hD': O.fx(hD).tolist(),
            'cI6': O.fx(cI[6]).ravel().tolist(), 'cI3': O.fx(cI[3]).ravel().tolist(), 'cD': O.fx(cD).ravel().tolist(),
            'P': O.fx(Pd, ps).tolist(), 'PT': O.fx(Pd.T, ps).tolist(), 'LP': O.fx(LP, LS).tolist(), 'LPlog': O.fx(lplog, LS).tolist(),
            'h1': O.fx(h1).tolist(), 'rowwise': rowwise,
            'ratio': float(np.nanmax(np.abs(cI[6] - cD) / (4 * np.abs(cI[6] - cI[3]) + 3e-7 + 1e-5 * np.abs(cD))))}


def run(ctx):
    quick = ctx.tier == 'quick'
    nchain = 12 if quick else 48
    npts = 16 if quick else 24
    ctx.rule = ('for each family a chain of %d thetas over the property range, on a %d-point grid of [1e-4, 1-1e-4] refined geometrically towards '
                'both ends: h = partial_derivative in [0,1], non-decreasing in u, h(1,v) = 1; for every grid u and every v-cell the 6-point '
                'Gauss-Legendre integral of h equals the CDF increment, for every 2-D cell the 6x6 integral of the density equals the C-volume '
                '(bound 4|I6-I3| + 3e-7 + 1e-5 |dC|); density non-negative and symmetric; log_pdf = log(pdf); batch values equal single-row / '
                'reversed / mixed evaluations.  TLC (DerivLaws) evaluates every law.  non-trivial = every table; distinct by (family, theta)') % (nchain, npts + 1)
    ctx.assumptions = ['integral form instead of finite differences; the quadrature error bound is self-calibrating',
                       'nothing is checked between grid points / outside [1e-4, 1-1e-4]^2']
    jobs = [(fam, pos, th, npts) for fam in O.FAMS4 for pos, th in enumerate(O.chain(fam, nchain), 1)]
    jobs += [(fam, 80 + i, float(t), npts, 1) for fam, ts in (('Clayton', (2, 5)), ('Gumbel', (2, 5)), ('Frank', (-3, 4))) for i, t in enumerate(ts)]      # integer-typed parameters
    # Frank's parameter may be arbitrarily close to 0 (0 itself is excluded): two members a few 1e-8 from it
    jobs += [('Frank', 90, 5e-8, npts), ('Frank', 91, -3e-8, npts)]
    with Pool(16) as pool:
        obs = pool.map(O.Safe(_observe), jobs, chunksize=1)
    obs, jobs = O.split_raised(ctx, 'C07', obs, jobs, 'harness.props.C07._observe')
    if len(obs) < 6:        # (nearly) every observation raised: the violations are recorded, there is no table left to judge
        ctx.exhaustive = False
        return
    ctx.extra['max_residual_over_bound_density'] = max(o['ratio'] for o in obs if np.isfinite(o['ratio']))
    recs = [{k: v for k, v in o.items() if k != 'ratio'} for o in obs]
    verdict = O.run_laws(ctx, 'DerivLaws', 'DerivLaws', recs)
    for o in obs:
        ctx.case('%s|%s' % (o['fam'], o['theta']))
    ctx.sample({'fam': obs[3]['fam'], 'theta': obs[3]['theta'], 'cI6': obs[3]['cI6'][:5], 'cI3': obs[3]['cI3'][:5], 'cD': obs[3]['cD'][:5]})
    ctx.extra['tables'] = len(obs)
    for i, laws in verdict:
        o = obs[i]
        for law in laws:
            ctx.violation('C07|%s|%s|%s' % (o['fam'], law, O.theta_bucket(o['fam'], float(o['theta']))),
                          '%s at theta=%s violates %s' % (o['fam'], o['theta'], law), {'fam': o['fam'], 'theta': o['theta'], 'law': law, 'rerun': ['harness.props.C07._observe', list(jobs[i])]})
    ctx.traces += len(obs)          # observation tables / samples of the real code judged by TLC
    ctx.exhaustive = False
