--------------------------------- MODULE RngTrace ---------------------------------
(***************************************************************************)
(* C15 on executions that were not designed by this framework: the            *)
(* repository's own end-to-end tests run under harness/recorder.py, which     *)
(* logs every outermost sample call with class numbers of the global          *)
(* generator state (g0 before, g1 after) and of the model's own generator      *)
(* (r0, r1; 0 = the model has no seed).  The abstract Sample / SampleRaises    *)
(* steps of Session say what must hold whatever the test was doing:            *)
(*   seeded model   -> the global generator is exactly as before (also when    *)
(*                     the call raised) and, if the call returned, the model's *)
(*                     own stream has advanced                                  *)
(*   unseeded model -> the model still has no generator afterwards              *)
(***************************************************************************)
EXTENDS Integers, Sequences, TLC, Json, IOUtils, TLCExt
RLog == JsonDeserialize(IOEnv.TRACE_FILE)
VARIABLE k
Init == k = 1
Next == k < Len(RLog) /\ k' = k + 1
Spec == Init /\ [][Next]_k
Problems(r) ==
  (IF r.seeded /\ r.g1 # r.g0 THEN <<"global-generator-moved-by-seeded-sample">> ELSE <<>>) \o
  (IF r.seeded /\ r.err = "" /\ r.r1 = r.r0 THEN <<"model-stream-not-advanced">> ELSE <<>>) \o
  (IF r.seeded /\ r.r1 = 0 THEN <<"model-lost-its-generator">> ELSE <<>>) \o
  (IF ~r.seeded /\ r.r1 # 0 THEN <<"unseeded-model-acquired-a-generator">> ELSE <<>>)
TraceChecked == k = 1 => PrintT(<<"VERDICT", SelectSeq([i \in 1..Len(RLog) |-> <<i, Problems(RLog[i])>>], LAMBDA p : p[2] # <<>>)>>)
=============================================================================
