"""Run the Acceptance law module over a list of records; returns indices (0-based) of failing records."""
import os
import shutil

from . import tlc as T

MICRO = 1000000


def micro(x):
    x = float(x)
    if x != x:                      # NaN statistic: as far from any expectation as the fixed point allows
        return 2000000000
    v = int(round(max(-2.1e3, min(2.1e3, x)) * MICRO))
    return max(-2000000000, min(2000000000, v))


def count(id_, k, n, pct):
    return {'kind': 'count', 'id': id_, 'k': int(k), 'n': int(n), 'pct': int(pct)}


def band(id_, obs, exp, b):
    return {'kind': 'band', 'id': id_, 'obs': micro(obs), 'exp': micro(exp), 'band': micro(b)}


def le(id_, a, b):
    return {'kind': 'le', 'id': id_, 'a': micro(a), 'b': micro(b)}


def evaluate(ctx, name, records):
    if not records:
        return []
    wd = T.workdir()
    try:
        tf = os.path.join(wd, 'accept.json')
        T.dump_json(tf, records)
        r = T.run('Acceptance', 'SPECIFICATION Spec\nINVARIANT TraceChecked\nCHECK_DEADLOCK FALSE\n', workers=1,
                  env={'TRACE_FILE': tf}, timeout=900)
        ctx.note_tlc(name, r)
        v = r.tagged('VERDICT')
        if not v:
            raise T.TlcError('Acceptance: no verdict\n' + r.raw[-2000:])
        return [i - 1 for i in v[-1][0]]
    finally:
        shutil.rmtree(wd, ignore_errors=True)


def ratio(id_, value, limit):
    """value <= limit, judged as value/limit <= 1 in micro-units (for tolerances far below 1e-6)"""
    r = float(value) / float(limit) if limit else float('inf')
    if not (r == r):
        r = 1e3
    return {'kind': 'le', 'id': id_, 'a': micro(min(r, 1e3)), 'b': micro(1.0)}
