------------------------------- MODULE Ownership -------------------------------
(***************************************************************************)
(* C20, first half: no public call modifies a caller-owned argument, so the *)
(* same argument objects can be used for a second identical call with the    *)
(* same result.                                                              *)
(*                                                                           *)
(* Design model: a caller owns argument objects (each with a content         *)
(* version); it performs calls of entry points on containers holding those   *)
(* objects, possibly several times with the very same objects.  The library  *)
(* may read arguments and must return a function of their content.  TLC      *)
(* enumerates every (entry point, container form, repetition) combination    *)
(* (generation mode) and checks logs of the real calls (trace mode): the     *)
(* deep fingerprint of every argument is logged before and after each call.  *)
(***************************************************************************)
EXTENDS Integers, Sequences, FiniteSets, TLC, Json, IOUtils, TLCExt

CONSTANTS MaxCalls      \* repetitions with the same argument objects

\* the binding table (entry point x container form) is read from the harness: [ep, cont] records
EntryTable == JsonDeserialize(IOEnv.ENTRIES_FILE)
Entries == {<<EntryTable[i].ep, EntryTable[i].cont>> : i \in 1..Len(EntryTable)}

VARIABLES entry, ncall, ver, lastres, hist
vars == <<entry, ncall, ver, lastres, hist>>

NoEntry == <<"none", "none">>
Init == entry = NoEntry /\ ncall = 0 /\ ver = 0 /\ lastres = <<>> /\ hist = <<>>

\* the caller builds fresh argument objects for an entry point ...
Prepare(e) ==
  /\ entry = NoEntry
  /\ entry' = e /\ ncall' = 0 /\ ver' = 0 /\ lastres' = <<>>
  /\ hist' = Append(hist, [e |-> "Prepare", ep |-> e[1], cont |-> e[2]])

\* ... and calls it; the intended library never bumps `ver` and returns a term over the content
Call ==
  /\ entry # NoEntry /\ ncall < MaxCalls
  /\ ncall' = ncall + 1
  /\ ver' = ver                                   \* C20: arguments are only read
  /\ lastres' = <<"result", entry, ver>>          \* a function of entry point and argument content
  /\ UNCHANGED entry
  /\ hist' = Append(hist, [e |-> "Call", n |-> ncall + 1])

Next == (\E e \in Entries : Prepare(e)) \/ Call
Spec == Init /\ [][Next]_vars

ArgsNeverChange == ver = 0
RepeatableResult == [][(ncall > 0 /\ ncall' = ncall + 1) => lastres' = lastres]_vars
Emit == (ncall = MaxCalls) => PrintT(<<"CASE", hist>>)

(* ---- trace mode: a log of real calls -------------------------------------------------------- *)
\* each record: [ep, cont, call, args: <<[name, before, after]>>, res, err]
OLog == JsonDeserialize(IOEnv.TRACE_FILE)

Problems(i) ==
  LET r == OLog[i] IN
  (IF r.err # "" THEN <<"call-raised">> ELSE <<>>) \o
  (IF \E a \in 1..Len(r.args) : r.args[a].before # r.args[a].after THEN <<"argument-modified">> ELSE <<>>) \o
  (IF r.call > 1 /\ i > 1 /\ OLog[i-1].ep = r.ep /\ OLog[i-1].cont = r.cont /\ OLog[i-1].call = r.call - 1
        /\ OLog[i-1].err = "" /\ r.err = "" /\ OLog[i-1].res # r.res
      THEN <<"second-call-differs">> ELSE <<>>) \o
  (IF r.call > 1 /\ i > 1 /\ OLog[i-1].ep = r.ep /\ OLog[i-1].cont = r.cont /\ OLog[i-1].call = r.call - 1
        /\ OLog[i-1].err = "" /\ r.err # ""
      THEN <<"second-call-raised">> ELSE <<>>)

Verdict == [i \in 1..Len(OLog) |-> Problems(i)]
TraceChecked == PrintT(<<"VERDICT", SelectSeq([i \in 1..Len(OLog) |-> <<i, Verdict[i]>>], LAMBDA p : p[2] # <<>>)>>)
=============================================================================
