"""C05  Marginal model choice: best-KS candidate, filters, per-column config, fallback."""
import itertools
import json
import warnings
from multiprocessing import Pool

import numpy as np
import pandas as pd

from .. import bindings as B

LEVEL = 'model_checking'
CFG = ('SPECIFICATION Spec\nCONSTANTS\n  Mode = "%s"\n  MaxCand = %d\n  MaxCols = %d\n  MaxHist = %d\nINVARIANT SelectTotal\nINVARIANT DispatchTotal\nINVARIANT HistoryFree\n'
       'INVARIANT FallbackOnlyWhenRaising\nINVARIANT Emit\nCHECK_DEADLOCK FALSE\n')
warnings.simplefilter('ignore')


def _set(v):
    return sorted(v['__set__']) if isinstance(v, dict) else sorted(v)


def _select(case):
    from copulas.univariate import Univariate
    from copulas.univariate.selection import select_univariate
    from ..stubs import stub_class
    from scipy.stats import norm
    X = np.random.RandomState(5).permutation(norm.ppf((np.arange(300) + 0.5) / 300.0))     # KS of the exact fit is ~0.002
    out = case['outcomes']
    cands = [stub_class(i + 1, r) for i, r in enumerate(out)]
    win = set(_set(case['winners']))
    probs = []
    from ..stubs import ParamStub
    if min([r for r in out if r] or [1]) >= 2 and sum(1 for r in out if r) >= 2:
        # every fittable candidate fits badly, and the column is long (20000 rows): the best of them is still the answer
        Xl = np.random.RandomState(7).permutation(norm.ppf((np.arange(20000) + 0.5) / 20000.0))
        try:
            inst = select_univariate(Xl, list(cands))
            pos = [i + 1 for i, c in enumerate(cands) if type(inst) is c]
            if not pos or pos[0] not in win:
                probs.append(('selected-candidate-not-of-minimal-KS', 'select_univariate on 20000 rows chose position %s for outcomes %s (minimal: %s)' % (pos, out, sorted(win))))
        except Exception as ex:
            probs.append(('selection-raised-' + type(ex).__name__, '20000 rows, outcomes %s' % out))
    for how in ('select_univariate', 'Univariate.fit', 'Univariate.fit(instances)', 'copula(Univariate(candidates))', 'copula({col: Univariate(candidates)})',
                'Univariate.fit(prototypes of one class)', 'select_univariate(prototypes of one class, positional)'):
        try:
            if how == 'select_univariate':
                inst = select_univariate(X.copy(), list(cands))
            elif how == 'Univariate.fit':
                u = Univariate(candidates=list(cands))
                u.fit(X.copy())
                inst = u._instance
            elif how == 'Univariate.fit(instances)':
                u = Univariate(candidates=[c() for c in cands])
                u.fit(X.copy())
                inst = u._instance
            elif how.endswith('of one class)') or how.endswith('positional)'):
                # several prototypes of the same family that differ in their constructor arguments only
                protos = [ParamStub(r, i) if how.endswith('positional)') else ParamStub(rank=r, position=i) for i, r in enumerate(out)]
                if how.startswith('select'):
                    inst = select_univariate(X.copy(), protos)
                else:
                    u = Univariate(candidates=protos)
                    u.fit(X.copy())
                    inst = u._instance
                pos = [inst.POSITION + 1] if isinstance(inst, ParamStub) else []
                if not pos or pos[0] not in win or inst.RANK != out[pos[0] - 1]:
                    probs.append(('selected-candidate-not-of-minimal-KS', '%s chose %s for outcomes %s (minimal: %s)' % (how, pos, out, sorted(win))))
                continue
            else:
                # the wrapper as the copula's prototype instance, its candidate list given positionally
                from copulas.multivariate import GaussianMultivariate
                proto = Univariate(list(cands))
                # every second copula carries a seed of its own (the seed is about sampling; the marginal configuration is unaffected)
                seeded = {'random_state': 3} if (len(out) + sum(out)) % 2 else {}
                m = GaussianMultivariate(distribution=proto if how.startswith('copula(U') else {'b': proto}, **seeded)
                m.fit(pd.DataFrame({'a': X[::-1] * 2.0 + X, 'b': X.copy()}))
                u = m.univariates[1]
                inst = getattr(u, '_instance', u)
            pos = [i + 1 for i, c in enumerate(cands) if type(inst) is c]
            if not pos or pos[0] not in win:
                probs.append(('selected-candidate-not-of-minimal-KS', '%s chose position %s for outcomes %s (minimal: %s)' % (how, pos, out, sorted(win))))
            elif not getattr(inst, 'fitted', False) and how != 'select_univariate':
                probs.append(('selected-candidate-not-fitted', how))
        except Exception as ex:
            probs.append(('selection-raised-' + type(ex).__name__, '%s on outcomes %s' % (how, out)))
    return probs


def _history(case):
    """two selections in a row through the same candidate list: the second must be judged by the second outcome vector alone"""
    from copulas.multivariate import GaussianMultivariate
    from copulas.univariate import Univariate
    from copulas.univariate.selection import select_univariate
    from ..stubs import hist_class
    from scipy.stats import norm
    XA = np.random.RandomState(5).permutation(norm.ppf((np.arange(300) + 0.5) / 300.0))
    XB = 100.0 + 2.0 * np.random.RandomState(6).permutation(norm.ppf((np.arange(300) + 0.5) / 300.0))
    first, second = case['first'], case['second']
    win = set(_set(case['winners']))
    probs = []
    for how in ('select_univariate twice, one list', 'one wrapper refitted', 'two wrappers, one list', 'copula columns sharing a prototype'):
        cands = [hist_class(i + 1, a, b) for i, (a, b) in enumerate(zip(first, second))]
        try:
            if how.startswith('select'):
                try:
                    select_univariate(XA.copy(), cands)
                except Exception:
                    pass
                inst = select_univariate(XB.copy(), cands)
            elif how.startswith('one wrapper'):
                u = Univariate(candidates=cands)
                try:
                    u.fit(XA.copy())
                    u.cumulative_distribution(np.array([0.1]))
                except Exception:
                    pass
                u.fit(XB.copy())
                inst = u._instance
            elif how.startswith('two wrappers'):
                u1, u2 = Univariate(candidates=cands), Univariate(candidates=cands)
                try:
                    u1.fit(XA.copy())
                except Exception:
                    pass
                u2.fit(XB.copy())
                inst = u2._instance
            else:
                if not any(first):
                    continue        # every candidate fails on the first column: the copula falls back there; nothing to select
                m = GaussianMultivariate(distribution=Univariate(candidates=cands))
                m.fit(pd.DataFrame({'a': XA.copy(), 'b': XB.copy()}))
                u = m.univariates[1]
                inst = getattr(u, '_instance', u)
            pos = [i + 1 for i, c in enumerate(cands) if type(inst) is c]
            if not pos or pos[0] not in win:
                probs.append(('second-selection-depends-on-the-first', '%s: outcomes %s then %s chose position %s (minimal: %s; %s)' %
                              (how, first, second, pos, sorted(win), type(inst).__name__)))
        except Exception as ex:
            probs.append(('selection-raised-' + type(ex).__name__, '%s on outcomes %s then %s' % (how, first, second)))
    return probs


def _neartie(job):
    """two candidates whose KS distances differ by less than 1/n, the maxima sitting on opposite sides of the empirical cdf"""
    from scipy.stats import kstest, norm
    from copulas.univariate.selection import select_univariate
    from ..stubs import shift_class
    n, delta, gap, order = job
    X = np.random.RandomState(9).permutation(norm.ppf((np.arange(n) + 0.5) / n))
    up = shift_class('up', delta)
    down = shift_class('down', -(delta + gap / n))
    cands = [up, down] if order == 0 else [down, up]
    ks = []
    for c in cands:
        inst = c()
        inst.fit(X.copy())
        ks.append(float(kstest(X, inst.cdf)[0]))
    chosen = type(select_univariate(X.copy(), list(cands)))
    k = ks[cands.index(chosen)]
    if k > min(ks) + 1e-12:
        return [('selected-candidate-not-of-minimal-KS', 'near tie n=%d: chose %s with KS %.6f although %.6f is available' % (n, chosen.__name__, k, min(ks)))]
    return []


DATA = {
    'normal': lambda rs: rs.normal(3, 2, 150),
    'uniform': lambda rs: rs.uniform(-1, 4, 150),
    'gamma': lambda rs: rs.gamma(2.0, 1.5, 150) + 1,
    'ushape': lambda rs: rs.beta(0.5, 0.5, 150) * 3 + 1,
    'bimodal': lambda rs: np.concatenate([rs.normal(0, 1, 75), rs.normal(8, 1, 75)]),
    'heavy': lambda rs: rs.standard_t(3, 150) * 2 + 5,
    'zero-one': lambda rs: np.array([1.0] * 21 + [0.0] * 29),
}
PARAM = ('BetaUnivariate', 'GammaUnivariate', 'GaussianUnivariate', 'LogLaplace', 'StudentTUnivariate', 'TruncatedGaussian',
         'UniformUnivariate', 'GaussianKDE')


def _real(job):
    import copulas.univariate as U
    from scipy.stats import kstest
    from copulas.univariate.selection import select_univariate
    dname, names, seed = job
    X = DATA[dname](np.random.RandomState(seed))
    ks = {}
    for n in names:
        try:
            inst = getattr(U, n)()
            inst.fit(X.copy())
            ks[n] = float(kstest(X, inst.cdf)[0])
        except Exception:
            ks[n] = None
    fit_ok = [n for n in names if ks[n] is not None and not np.isnan(ks[n])]
    if not fit_ok:
        return []
    best = min(ks[n] for n in fit_ok)
    probs = []
    for how in ('classes', 'wrapper'):
        try:
            if how == 'classes':
                inst = select_univariate(X.copy(), [getattr(U, n) for n in names])
            else:
                w = U.Univariate(candidates=[getattr(U, n) for n in names])
                if seed % 2:          # a wrapper that already selected a family for other data selects again
                    try:
                        w.fit(np.random.RandomState(seed).uniform(-40.0, -39.0, 60))
                        w.cumulative_distribution(np.array([-39.5]))
                    except Exception:
                        pass
                w.fit(X.copy())
                inst = w._instance
            chosen = type(inst).__name__
            if ks.get(chosen) is None or ks[chosen] > best + 1e-12:
                probs.append(('selected-candidate-not-of-minimal-KS', '%s on %s data chose %s (KS %r) although %r' % (how, dname, chosen, ks.get(chosen), ks)))
        except Exception as ex:
            probs.append(('selection-raised-' + type(ex).__name__, '%s on %s' % (how, dname)))
    return probs


def _filter(case):
    import copulas.univariate as U
    kw = {}
    if case['parametric'] != 'any':
        kw['parametric'] = getattr(U.ParametricType, case['parametric'])
    if case['bounded'] != 'any':
        kw['bounded'] = getattr(U.BoundedType, case['bounded'])
    exp = set(_set(case['classes']))
    # user-defined subclasses (the harness's own stubs) legitimately show up too; the specification's table is the library's
    got = {c.__name__ for c in U.Univariate(**kw).candidates if c.__module__.startswith('copulas.')}
    got2 = {c.__name__ for c in U.Univariate._select_candidates(**kw) if c.__module__.startswith('copulas.')}
    probs = []
    if got != exp and exp:
        probs.append(('candidate-set-differs-from-filter', 'filters %s: got %s expected %s' % (kw, sorted(got), sorted(exp))))
    if got2 != exp:
        probs.append(('candidate-set-differs-from-filter', '_select_candidates %s: got %s expected %s' % (kw, sorted(got2), sorted(exp))))
    # an explicit candidate list overrides the filters
    explicit = [U.GaussianUnivariate, U.UniformUnivariate]
    if U.Univariate(candidates=explicit, **kw).candidates != explicit:
        probs.append(('explicit-candidate-list-not-honoured', str(kw)))
    return probs


def _dispatch(case):
    from copulas.multivariate import GaussianMultivariate
    from copulas.univariate import GaussianUnivariate, Univariate
    from ..stubs import PickyGaussian
    n = case['n']
    cols = ['c%d' % i for i in range(1, n + 1)]
    # column labels need not be strings: integers (as for ndarray input) or tuples for a part of the cases
    style = (n + len(_set(case['named'])) + len(_set(case['raises']))) % 3
    if style == 1:
        cols = [10 * i for i in range(1, n + 1)]
    elif style == 2:
        cols = [('t', i) for i in range(1, n + 1)]
    rs = np.random.RandomState(11 + n)
    z = rs.normal(size=(60, n))
    for j in range(1, n):
        z[:, j] = 0.5 * z[:, j - 1] + 0.8 * z[:, j]
    df = pd.DataFrame(z, columns=cols)
    raises = set(_set(case['raises']))
    named = set(_set(case['named']))
    const_col = None
    if (n + len(named)) % 3 == 0:
        # now and then one of the columns is constant: every family models a constant column without raising, so the column keeps
        # the distribution that was configured for it (unless that one is marked as raising)
        free = [i for i in range(1, n + 1) if i not in raises]
        if free:
            const_col = free[(n + len(raises)) % len(free)]
            df[cols[const_col - 1]] = 2.5
    for i in raises:
        df[cols[i - 1]] += 1000.0 * (1 + (3 * i + n + len(named) + len(case['form'])) % 11)      # the shift selects the exception type (stubs.ERRORS)
    form = case['form']
    if form == 'default':
        kw = {}
    elif form == 'class':
        kw = {'distribution': PickyGaussian}
    elif form == 'name':
        kw = {'distribution': 'harness.stubs.PickyGaussian'}
    elif form == 'instance':
        kw = {'distribution': PickyGaussian()}
    else:
        forms = [PickyGaussian, 'harness.stubs.PickyGaussian', PickyGaussian()]
        kw = {'distribution': {cols[i - 1]: forms[i % 3] for i in sorted(named)}}
    probs = []
    if (n + len(named) + len(raises)) % 2:
        kw['random_state'] = 11        # a copula with a seed of its own
    try:
        m = GaussianMultivariate(**kw)
        m.fit(df)
    except Exception as ex:
        return [('fit-raised-' + type(ex).__name__, json.dumps({k: str(v) for k, v in case.items()}))]
    for i, exp in enumerate(case['expected'], 1):
        u = m.univariates[i - 1]
        want = {'configured': PickyGaussian, 'default': Univariate, 'gaussian': GaussianUnivariate}[exp]
        if type(u) is not want:
            probs.append(('column-modelled-by-wrong-distribution', 'column %d: %s instead of %s (%s)' % (i, type(u).__name__, want.__name__, exp)))
        elif not u.fitted:
            probs.append(('column-model-not-fitted', 'column %d' % i))
    if list(m.columns) != cols:
        probs.append(('columns-not-in-training-order', str(m.columns)))
    if raises and form != 'default':
        # the same copula fitted again to a table on which every configured distribution can be fitted: nothing falls back any more
        df2 = df.copy()
        for i in raises:
            df2[cols[i - 1]] = df2[cols[i - 1]] - df2[cols[i - 1]].mean()
        try:
            m.fit(df2)
            for i in range(1, n + 1):
                u = m.univariates[i - 1]
                exp2 = 'default' if (form == 'dict' and i not in named) else 'configured'
                want = {'configured': PickyGaussian, 'default': Univariate}[exp2]
                if type(u) is not want:
                    probs.append(('column-modelled-by-wrong-distribution', 'second fit, column %d: %s instead of %s' % (i, type(u).__name__, want.__name__)))
                    break
        except Exception as ex:
            probs.append(('fit-raised-' + type(ex).__name__, 'second fit of the same copula'))
    try:
        s = m.sample(5)
        if list(s.columns) != cols or len(s) != 5 or s.isna().any().any():
            probs.append(('sample-after-fallback-broken', ''))
    except Exception as ex:
        probs.append(('sample-raised-' + type(ex).__name__, ''))
    return probs


def run(ctx):
    quick = ctx.tier == 'quick'
    ctx.rule = ('TLC (Selection) enumerates (a) every outcome vector of 1..4 candidates (cannot be fitted / KS rank 1..3) with the set of '
                'admissible winners, (a2) every pair of different outcome vectors of 1..2 (3) candidates on two data sets selected one after the other through the same '
                'candidate list (one list twice, one wrapper refitted, two wrappers, the column copies of a copula prototype): the second answer depends on the second vector only, (b) every parametric x bounded filter combination with the expected candidate set, (c) every '
                'GaussianMultivariate configuration form x column count x named-column subset x raising-column subset with the expected model '
                'per column; each case is realised on the real code (stub candidates with controlled KS distance, PickyGaussian that raises '
                'on marked columns); plus real candidate subsets on 7 data shapes judged by independently computed KS statistics. '
                'non-trivial = every case; distinct by content')
    ctx.assumptions = ['stub candidates have KS distances separated by 0.15 (sampling noise of n=300 is 0.05)',
                       'ties in KS rank: any of the tied candidates is accepted']
    allc = {}
    for mode in ('select', 'history', 'filter', 'dispatch'):
        r = ctx.tlc('Selection.' + mode, 'Selection', CFG % (mode, 4, 3 if quick else 4, 2 if quick else 3), workers=1, timeout=900)
        allc[mode] = [c[0] for c in r.tagged('CASE')]
    rs = np.random.RandomState(ctx.seed)
    real = []
    for d in DATA:
        for k in range(4 if quick else 25):
            size = int(rs.choice([2, 3, 4]))
            names = tuple(sorted(rs.choice(PARAM, size=size, replace=False).tolist()))
            real.append((d, names, ctx.seed + k))
    near = [(n, d, g, o) for n in (40, 100, 300) for d in (0.02, 0.05, 0.11) for g in (0.3, 0.6, 0.9) for o in (0, 1)]
    # the full list of parametric families on more data sets (near ties between real families do occur)
    for d in DATA:
        for k in range(3 if quick else 12):
            real.append((d, tuple(sorted(PARAM[:7])), ctx.seed + 100 + k))
    with Pool(16) as pool:
        rnear = pool.map(_neartie, near, chunksize=4)
        rsel = pool.map(_select, allc['select'], chunksize=8)
        rhis = pool.map(_history, allc['history'], chunksize=4)
        rfil = pool.map(_filter, allc['filter'], chunksize=2)
        rdis = pool.map(_dispatch, allc['dispatch'], chunksize=2)
        rreal = pool.map(_real, real, chunksize=1)
    for kind, cases, res in (('neartie', near, rnear), ('select', allc['select'], rsel), ('history', allc['history'], rhis), ('filter', allc['filter'], rfil), ('dispatch', allc['dispatch'], rdis), ('real', real, rreal)):
        for case, probs in zip(cases, res):
            ctx.case(kind + '|' + json.dumps(case, sort_keys=True, default=str))
            for p, detail in probs:
                if kind == 'select':
                    b = 'n=%d,fail=%d' % (len(case['outcomes']), sum(1 for o in case['outcomes'] if o == 0))
                elif kind == 'history':
                    b = 'n=%d,failed-before=%d' % (len(case['second']), sum(1 for o in case['first'] if o == 0))
                elif kind == 'filter':
                    b = '%s,%s' % (case['parametric'], case['bounded'])
                elif kind == 'dispatch':
                    b = '%s,raises=%d' % (case['form'], len(_set(case['raises'])))
                elif kind == 'neartie':
                    b = 'n=%d' % case[0]
                else:
                    b = case[0]
                ctx.violation('C05|%s|%s|%s' % (kind, p, b), '%s: %s' % (p, detail), case if not isinstance(case, tuple) else list(case))
        ctx.sample({kind: cases[len(cases) // 2] if not isinstance(cases[0], tuple) else list(cases[len(cases) // 2])})
    ctx.traces += sum(len(v) for v in allc.values())
    ctx.exhaustive = True
