"""Regenerates the findings and seeded-changes tables of DESIGN.md (between the HTML comment markers) from known_findings.json and seeded/*/meta.json."""
import json, os, re
HERE = os.path.dirname(os.path.abspath(__file__))
def findings():
    F = json.load(open(os.path.join(HERE, 'known_findings.json')))['findings']
    rows = ['| id | property | status | commit | what failed |', '|---|---|---|---|---|']
    for f in sorted(F, key=lambda f: int(f['id'][1:])):
        what = f['what']
        if what.startswith('fixed: '):
            what = what.split(' ', 3)[3]
        rows.append('| %s | %s | %s | %s | %s |' % (f['id'], f['property'], f['status'], f.get('commit') or '-', what.replace('|', '/')))
    return '\n'.join(rows)
def seeds():
    rows = ['| seed | property | needs | detection |', '|---|---|---|---|']
    for d in sorted(os.listdir(os.path.join(HERE, 'seeded'))):
        m = json.load(open(os.path.join(HERE, 'seeded', d, 'meta.json')))
        rows.append('| %s | %s | %s | %s |' % (d, m['property'], ' '.join(str(m.get('needs', '')).split())[:300].replace('|', '/'),
                                             str(m.get('detection', '(being processed)')).replace('|', '/')[:330]))
    return '\n'.join(rows)
p = os.path.join(HERE, 'DESIGN.md')
s = open(p).read()
for tag, fn in (('findings-table', findings), ('seeds-table', seeds)):
    s = re.sub(r'<!-- %s -->.*?<!-- /%s -->' % (tag, tag), lambda m: '<!-- %s -->\n%s\n<!-- /%s -->' % (tag, fn(), tag), s, flags=re.S)
open(p, 'w').write(s)
print('tables regenerated')
