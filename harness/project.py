"""The refinement mapping: projections of real objects onto what the specification talks about.

fp_rng      exact fingerprint of a NumPy legacy generator state
fp_arg      deep content fingerprint of a caller-owned argument object
canon       canonical nested structure of a result / to_dict (NaN-aware, arrays by value)
close       tolerance equality of two canonical structures
Classes     numbering of tolerance-equivalence classes (what the trace logs carry as integers)
"""
import hashlib
import math

import numpy as np
import pandas as pd

RTOL = 1e-9
ATOL = 1e-12


def fp_rng(state):
    """state = np.random.get_state() / RandomState.get_state() tuple."""
    h = hashlib.sha1()
    h.update(str(state[0]).encode())
    h.update(np.asarray(state[1]).tobytes())
    # the cached Gaussian only matters while has_gauss is set (seed() leaves a stale value behind)
    h.update(repr((int(state[2]), int(state[3]), float(state[4]) if int(state[3]) else 0.0)).encode())
    return h.hexdigest()[:16]


def fp_global():
    return fp_rng(np.random.get_state())


def fp_model_rng(m):
    rs = getattr(m, 'random_state', None)
    if rs is None:
        return None
    return fp_rng(rs.get_state())


def _h(h, *parts):
    for p in parts:
        h.update(p if isinstance(p, bytes) else str(p).encode())
        h.update(b'|')


def _fp_arg(x, h):
    if isinstance(x, np.ndarray):
        _h(h, 'nd', x.dtype.str, x.shape, x.flags.writeable)
        if x.dtype == object:
            for e in x.ravel().tolist():
                _fp_arg(e, h)
        else:
            _h(h, np.ascontiguousarray(x).tobytes())
    elif isinstance(x, pd.DataFrame):
        _h(h, 'df', list(map(repr, x.columns)), list(map(str, x.dtypes)), x.shape)
        _fp_arg(np.asarray(x.index), h)
        for c in range(x.shape[1]):
            _fp_arg(np.array(x.iloc[:, c].to_numpy(), copy=True), h)
    elif isinstance(x, pd.Series):
        _h(h, 'ser', repr(x.name), str(x.dtype))
        _fp_arg(np.asarray(x.index), h)
        _fp_arg(np.array(x.to_numpy(), copy=True), h)
    elif isinstance(x, dict):
        _h(h, 'dict', len(x))
        for k, v in x.items():      # order-sensitive on purpose
            _h(h, repr(k))
            _fp_arg(v, h)
    elif isinstance(x, (list, tuple)):
        _h(h, type(x).__name__, len(x))
        for v in x:
            _fp_arg(v, h)
    elif isinstance(x, (set, frozenset)):
        _h(h, 'set', sorted(map(repr, x)))
    elif isinstance(x, np.random.RandomState):
        _h(h, 'rs', fp_rng(x.get_state()))
    elif isinstance(x, float) and math.isnan(x):
        _h(h, 'nan')
    else:
        _h(h, type(x).__name__, repr(x))


def fp_arg(x):
    h = hashlib.sha1()
    _fp_arg(x, h)
    return h.hexdigest()[:16]


# -------------------------------------------------------------------------------------------------
def canon(x):
    """Canonical structure: nested tuples of ('f', float) leaves etc.; arrays as ('a', shape, floats)."""
    if x is None or isinstance(x, (bool, str)):
        return x
    if isinstance(x, (np.bool_,)):
        return bool(x)
    if isinstance(x, (int, np.integer)):
        return int(x)
    if isinstance(x, (float, np.floating)):
        return ('f', float(x))
    if isinstance(x, np.ndarray):
        if x.dtype.kind in 'fiub':
            return ('a', tuple(x.shape), np.asarray(x, dtype=float).ravel())
        return ('l', tuple(canon(e) for e in x.ravel().tolist()))
    if isinstance(x, pd.DataFrame):
        return ('df', tuple(map(repr, x.columns)), canon(x.to_numpy(dtype=float, copy=True)) if all(
            k.kind in 'fiub' for k in x.dtypes) else ('l', tuple(canon(v) for v in x.to_numpy().ravel().tolist())))
    if isinstance(x, pd.Series):
        return ('ser', tuple(map(repr, x.index)), canon(x.to_numpy()))
    if isinstance(x, dict):
        return ('d', tuple((repr(k), canon(v)) for k, v in sorted(x.items(), key=lambda kv: repr(kv[0]))))
    if isinstance(x, (list, tuple)):
        if len(x) > 8 and all(isinstance(e, (float, int, np.floating, np.integer)) and not isinstance(e, bool) for e in x):
            return ('a', (len(x),), np.asarray(x, dtype=float))
        return ('l', tuple(canon(e) for e in x))
    if isinstance(x, (set, frozenset)):
        return ('s', tuple(sorted(repr(e) for e in x)))
    if hasattr(x, 'name') and hasattr(x, 'value') and x.__class__.__module__.startswith('copulas'):
        return ('enum', x.__class__.__name__, x.name)
    if isinstance(x, type):
        return ('type', x.__module__ + '.' + x.__name__)
    return ('r', repr(x))


def _fclose(a, b, rtol, atol):
    if math.isnan(a) or math.isnan(b):
        return math.isnan(a) and math.isnan(b)
    if math.isinf(a) or math.isinf(b):
        return a == b
    return abs(a - b) <= atol + rtol * max(abs(a), abs(b))


def close(a, b, rtol=RTOL, atol=ATOL):
    if isinstance(a, tuple) and isinstance(b, tuple):
        if len(a) != len(b):
            return False
        if a and a[0] == 'f' and len(a) == 2 and isinstance(a[1], float):
            return b[0] == 'f' and _fclose(a[1], b[1], rtol, atol)
        if a and a[0] == 'a' and len(a) == 3 and isinstance(a[2], np.ndarray):
            if b[0] != 'a' or a[1] != b[1]:
                return False
            x, y = a[2], b[2]
            nx, ny = np.isnan(x), np.isnan(y)
            if not np.array_equal(nx, ny):
                return False
            ix, iy = np.isinf(x), np.isinf(y)
            if not np.array_equal(ix, iy) or not np.array_equal(x[ix], y[iy]):
                return False
            ok = ~(nx | ix)
            return bool(np.all(np.abs(x[ok] - y[ok]) <= atol + rtol * np.maximum(np.abs(x[ok]), np.abs(y[ok]))))
        return all(close(p, q, rtol, atol) for p, q in zip(a, b))
    if isinstance(a, tuple) or isinstance(b, tuple):
        return False
    return a == b


def skeleton(c):
    """Structure without float content (bucket key for the class search)."""
    if isinstance(c, tuple):
        if c and c[0] == 'f' and len(c) == 2:
            return 'f'
        if c and c[0] == 'a' and len(c) == 3 and isinstance(c[2], np.ndarray):
            return ('a', c[1])
        return tuple(skeleton(e) for e in c)
    return c


def digest(c):
    """Exact digest of a canonical structure (for results compared bit-exactly, e.g. samples)."""
    h = hashlib.sha1()

    def rec(c):
        if isinstance(c, tuple):
            h.update(b'(')
            for e in c:
                rec(e)
            h.update(b')')
        elif isinstance(c, np.ndarray):
            h.update(np.ascontiguousarray(c).tobytes())
        elif isinstance(c, float):
            h.update(np.float64(c).tobytes())
        else:
            h.update(repr(c).encode())
        h.update(b',')
    rec(c)
    return h.hexdigest()[:16]


class Classes(object):
    """Numbers tolerance-equivalence classes of canonical structures; exact kinds use a digest."""

    def __init__(self):
        self.buckets = {}
        self.exact = {}
        self.n = 0
        self.reps = {}

    def exact_id(self, kind, key):
        k = (kind, key)
        if k not in self.exact:
            self.n += 1
            self.exact[k] = self.n
            self.reps[self.n] = key
        return self.exact[k]

    def tol_id(self, kind, c, rtol=RTOL, atol=ATOL):
        b = self.buckets.setdefault((kind, repr(skeleton(c))), [])
        for rep, i in b:
            if close(rep, c, rtol, atol):
                return i
        self.n += 1
        b.append((c, self.n))
        self.reps[self.n] = c
        return self.n


def describe(c, limit=400):
    s = repr(c)
    return s if len(s) <= limit else s[:limit] + '...'
