"""C17  Vine pair-copula data flow, likelihood and sampling are coherent."""
import json
import math
import os
import traceback
from multiprocessing import Pool

import numpy as np

from .. import project as P
from .. import tlc as T
from .. import vine_tools as V
from ..bindings import poison

LEVEL = 'model_checking'
RT = 1e-9


def _vars(e):
    return {e.L, e.R} | set(e.D)


def expected_parent(e, prev_edges, pa, v):
    """mirror of VineFlow!ExpectedInput: the parent whose conditioned pair contains v"""
    p1, p2 = prev_edges[pa[0] - 1], prev_edges[pa[1] - 1]
    if v in (p1.L, p1.R) and v not in _vars(p2):
        return pa[0] - 1, p1
    if v in (p2.L, p2.R) and v not in _vars(p1):
        return pa[1] - 1, p2
    return None, None


def expected_loglik(trees, struct, u):
    """VineLik: sum over all edges of log c_e(a_L, a_R) with h-propagated arguments (public bivariate API)."""
    from copulas.bivariate.base import Bivariate
    vals = {}
    total = 0.0
    for k, t in enumerate(trees):
        for i, e in enumerate(t.edges):
            if k == 0:
                a = {e.L: float(u[e.L]), e.R: float(u[e.R])}
            else:
                a = {}
                for v in (e.L, e.R):
                    idx, p = expected_parent(e, trees[k - 1].edges, struct[k][i]['pa'], v)
                    if p is None:
                        return float('nan')
                    a[v] = vals[(k - 1, idx, v)]
            c = Bivariate(copula_type=e.name)
            c.theta = e.theta
            XL = np.array([[a[e.L], a[e.R]]])
            XR = np.array([[a[e.R], a[e.L]]])
            with np.errstate(all='ignore'):
                total += float(np.log(np.sum(c.probability_density(XL))))
                vals[(k, i, e.L)] = float(np.ravel(c.partial_derivative(XL))[0])
                vals[(k, i, e.R)] = float(np.ravel(c.partial_derivative(XR))[0])
    return total


def tau_of(name, theta):
    name = name.name if hasattr(name, 'name') else str(name)
    if name == 'CLAYTON':
        return theta / (theta + 2.0)
    if name == 'GUMBEL':
        return 1.0 - 1.0 / theta
    from scipy import integrate
    if abs(theta) < 1e-12:
        return 0.0
    d1 = integrate.quad(lambda t: t / math.expm1(t) if t != 0 else 1.0, 0, theta)[0] / theta
    return 1.0 - 4.0 / theta * (1.0 - d1)


def _observe(job):
    n, pattern, vtype, trunc, seed, nsample = job
    import copulas.bivariate as cb
    from copulas.bivariate.base import Bivariate
    from copulas.utils import EPSILON
    rs = np.random.RandomState(seed)
    df = V.random_table(rs, n, pattern, nrow=1100 if seed % 53 == 7 else None)      # now and then a table of more than 1000 rows
    rec = {'n': n, 'vtype': vtype, 'trunc': trunc, 'trees': [], 'ucols': [], 'lik': [], 'sample': '', 'err': '',
           'src': pattern}
    C = P.Classes()
    calls = []
    orig = cb.select_copula

    def recorder(X):
        calls.append(np.array(X, dtype=float, copy=True))
        return orig(X)
    cb.select_copula = recorder
    try:
        try:
            past = V.past_table(rs, n, seed) if seed % 3 == 1 else None      # a third of the models have a past
            if past is None:
                m = V.fit_vine(df, vtype, trunc)
            else:
                # the same instance lived before: fitted to another table (not observed), sampled, then fitted to this one
                from copulas.multivariate import VineCopula
                m = VineCopula(vtype)
                cb.select_copula = orig
                with V.time_limit(90):
                    m.fit(past, truncated=max(1, past.shape[1] - 1))
                    st_ = np.random.get_state()
                    m.sample(1)
                    np.random.set_state(st_)
                cb.select_copula = recorder
                calls.clear()
                poison([(j, j) for j in range(1, n + 1)], 0.0)
                with V.time_limit(90):
                    m.fit(df, truncated=trunc)
        finally:
            cb.select_copula = orig
        struct, adm = V.structure(m.trees)
        rec['ucols'] = [C.tol_id('col', P.canon(np.asarray(m.u_matrix[:, j], dtype=float)), RT) for j in range(n)]
        pos = 0
        for k, t in enumerate(m.trees):
            row = []
            for i, e in enumerate(t.edges):
                d = dict(struct[k][i])
                if pos < len(calls) and calls[pos].ndim == 2 and calls[pos].shape[1] == 2:
                    X = calls[pos]
                    d['inL'] = C.tol_id('col', P.canon(X[:, 0].copy()), RT)
                    d['inR'] = C.tol_id('col', P.canon(X[:, 1].copy()), RT)
                    sel = orig(X)
                    d['selcop'] = C.tol_id('cop', P.canon((V.fam_name(sel) if False else sel.copula_type.name, float(sel.theta))), RT)
                    c = Bivariate(copula_type=e.name)
                    c.theta = e.theta
                    h0 = np.asarray(c.partial_derivative(X), dtype=float).copy()
                    h1 = np.asarray(c.partial_derivative(X[:, ::-1].copy()), dtype=float).copy()
                    for h in (h0, h1):
                        h[h <= 0] = EPSILON
                        h[h >= 1] = 1 - EPSILON
                    d['h0'] = C.tol_id('col', P.canon(h0), RT)
                    d['h1'] = C.tol_id('col', P.canon(h1), RT)
                else:
                    d['inL'] = d['inR'] = d['selcop'] = d['h0'] = d['h1'] = -2     # select_copula was not observed
                pos += 1
                U = np.asarray(e.U, dtype=float)
                d['U0'] = C.tol_id('col', P.canon(U[0].copy()), RT)
                d['U1'] = C.tol_id('col', P.canon(U[1].copy()), RT)
                d['cop'] = C.tol_id('cop', P.canon((V.fam_name(e), float(e.theta))), RT)
                d['inside'] = bool(np.all((U > 0) & (U < 1)))
                row.append(d)
            rec['trees'].append(row)
        # likelihood: term structure and determinism (also across allocator poisons)
        for q in range(5):
            u = rs.uniform(0.08, 0.92, size=n)
            if q == 3:          # far from the diagonal of every strongly dependent pair: tiny densities
                u = np.where(np.arange(n) % 2 == 0, 0.03, 0.97) + rs.uniform(-0.01, 0.01, size=n)
            elif q == 4:
                u = rs.choice([0.002, 0.5, 0.998], size=n)
            elif q == 2:        # inside the open cube but within 1e-7 of its faces
                u = np.where(np.arange(n) == q % n, 1e-10, u)
                u[(q + 1) % n] = 1 - 1e-12
            uu = np.array([u])
            with np.errstate(all='ignore'):
                poison([(n, n), (1, n - 1), (1, max(1, len(m.trees)))], 0.0)
                a1 = float(m.get_likelihood(uu.copy()))
                poison([(n, n), (1, n - 1), (1, max(1, len(m.trees)))], 0.73)
                a2 = float(m.get_likelihood(uu.copy()))
                ex = expected_loglik(m.trees, struct, u)
            rec['lik'].append({'actual': C.tol_id('lik', P.canon(a1), 1e-8, 1e-9),
                               'again': C.tol_id('lik', P.canon(a2), 1e-8, 1e-9),
                               'expected': C.tol_id('lik', P.canon(ex), 1e-8, 1e-9),
                               'values': [a1, a2, ex]})
        # sampling
        if nsample:
            m.set_random_state(seed % 1000 + 1)
            s = m.sample(nsample)
            if list(s.columns) != list(df.columns) or len(s) != nsample or s.isna().any().any() or \
                    not np.isfinite(s.to_numpy(dtype=float)).all():
                rec['sample'] = 'sample-schema'
            elif n == 2 and nsample >= 200:
                from scipy import stats
                eps = math.sqrt(math.log(2.0 / 1e-10) / (2.0 * nsample))
                rec['tails'] = [0, 0, 0]
                for j in range(2):
                    x = np.sort(s.iloc[:, j].to_numpy())
                    F = m.unis[j].cumulative_distribution(x)
                    # the fitted marginals are continuous: a value drawn three times is an atom; the mass beyond the 1 % / 99 %
                    # points is pooled over the run (Acceptance band in run())
                    if np.max(np.unique(x, return_counts=True)[1]) >= 3:
                        rec['sample'] = 'sample-has-an-atom-although-the-marginal-is-continuous'
                    rec['tails'][0] += int(np.sum(F < 0.01))
                    rec['tails'][1] += int(np.sum(F > 0.99 + 1e-9))
                    rec['tails'][2] += int(len(F))
                    ks = max(np.max(np.abs(F - np.arange(1, nsample + 1) / nsample)),
                             np.max(np.abs(F - np.arange(0, nsample) / nsample)))
                    if ks > eps + 0.02:
                        rec['sample'] = 'sample-marginal-differs-from-fitted-marginal'
                e = m.trees[0].edges[0]
                t_model = tau_of(e.name, float(e.theta))
                t_s = stats.kendalltau(s.iloc[:, 0], s.iloc[:, 1])[0]
                band = 6.5 * math.sqrt(2.0 * (2 * nsample + 5) / (9.0 * nsample * (nsample - 1))) + 0.05
                if not rec['sample'] and abs(t_s - t_model) > band:
                    rec['sample'] = 'sample-kendall-tau-differs-from-pair-copula'
                rec['sample_stats'] = [float(t_s), float(t_model), float(band)]
    except Exception as ex:
        rec['err'] = type(ex).__name__ + ':' + traceback.format_exc(limit=-2)[-300:]
    return rec


def run(ctx):
    quick = ctx.tier == 'quick'
    ctx.rule = ('real VineCopula.fit on random tables (2..6 columns, 8 dependence patterns, three vine types, all truncations) '
                'with select_copula observed from outside; for every edge TLC (VineFlow) checks that the arrays passed to '
                'select_copula are the terms the specification prescribes (marginal CDF columns / the parent h-function of the '
                'right variable, in order), that the stored family/theta is what select_copula returns for them, and that the '
                'stored pseudo-observations are the h-functions of that copula on those inputs, inside (0,1); get_likelihood is '
                'compared with the VineLik term sum on 5 rows per model (two of them far from the diagonal), twice under different allocator poisons; sample() '
                'schema on every model; marginal / Kendall-tau acceptance bands, absence of atoms and pooled tail mass on two-column tables.  non-trivial = a model '
                'with >= 2 trees, or a two-column model with the statistical sampling check; distinct by (type, n, truncation, table)')
    ctx.assumptions = ['arrays are identified by equivalence classes at rtol 1e-9', 'edge creation order = order of select_copula calls',
                       'sampling bands: DKW at 1e-10 + 0.02 for marginals, 6.5 sigma + 0.05 for Kendall tau (n=1500; thorough 6000); a value drawn three times is an atom; pooled mass beyond the 1 % / 99 % points of the fitted marginals 0.01 +- 0.0035 (>= 27000 values: false-alarm probability < 1e-6)']
    # the term-graph rule is only meaningful on well-formed vines: re-establish the design facts it relies on
    from .C16 import MC_CFG
    for n, vt in ((4, 'regular'), (5, 'regular'), (5, 'direct'), (5, 'center')):
        ctx.tlc('Vine.mc N=%d %s' % (n, vt), 'Vine', MC_CFG % (n, vt, n, ''), timeout=900)
    jobs = []
    rs = np.random.RandomState(ctx.seed + 17)
    nt = 60 if quick else 700
    for i in range(nt):
        n = int(rs.choice([2, 3, 4, 5, 6], p=[0.15, 0.15, 0.3, 0.25, 0.15]))
        pattern = V.PATTERNS[i % len(V.PATTERNS)]
        trunc = int(rs.choice([1, 2, n - 1 if n > 2 else 1, n]))
        for vt in ('center', 'direct', 'regular'):
            jobs.append((n, pattern, vt, max(1, trunc), ctx.seed * 15485863 + i, 3))
    for i in range(9 if quick else 30):
        pattern = ('chain', 'mixed-sign', 'factor', 'near-dup', 'monotone')[i % 5]
        jobs.append((2, pattern, ('center', 'direct', 'regular')[i % 3], 1, ctx.seed * 32452843 + i, 1500 if quick else 6000))
    for i in range(3 if quick else 9):      # tables with strong lower-tail dependence (the Clayton family is selected, theta around 9)
        jobs.append((2, 'clayton-strong', ('center', 'direct', 'regular')[i % 3], 1, ctx.seed * 32452843 + 500 + i, 1500 if quick else 6000))
    # larger samples from strongly dependent, truncated vines (inverted probabilities reach the clamps): schema only
    for i, sd in enumerate((314, 1022, 77) if quick else (314, 1022, 77, 5, 640, 911, 2048, 4001)):
        for vt in ('center', 'direct', 'regular'):
            jobs.append((6, 'against-trend', vt, 1, sd, 300))
    jobs.sort(key=lambda j: -j[5] * 10 - j[0])
    with Pool(16) as pool:
        log = pool.map(_observe, jobs, chunksize=1)
    wd = T.workdir()
    try:
        tf = os.path.join(wd, 'flow.json')
        T.dump_json(tf, [{k: v for k, v in r.items() if k not in ('src', 'sample_stats', 'tails')} for r in log])
        cfg = 'SPECIFICATION Spec\nCONSTANTS\n  N = 2\n  VType = "regular"\n  Trunc = 1\nINVARIANT TraceChecked\nCHECK_DEADLOCK FALSE\n'
        r = T.run('VineFlow', cfg, workers=1, env={'TRACE_FILE': tf}, timeout=1500)
        ctx.note_tlc('VineFlow', r)
        verdict = r.tagged('VERDICT')
        if not verdict:
            raise T.TlcError('VineFlow: no verdict\n' + r.raw[-2500:])
    finally:
        import shutil
        shutil.rmtree(wd, ignore_errors=True)
    # mass of the sampled columns beyond the 1 % and 99 % points of their fitted marginals, pooled over the two-column models
    from .. import accept as A
    tl = [sum(r.get('tails', [0, 0, 0])[k] for r in log) for k in range(3)]
    ctx.extra['sampled_values_beyond_1pct_99pct'] = tl
    if tl[2] >= 20000:
        arecs = [A.band('lower tail mass of sampled columns (F < 0.01)', tl[0] / tl[2], 0.01, 0.0035),
                 A.band('upper tail mass of sampled columns (F > 0.99)', tl[1] / tl[2], 0.01, 0.0035)]
        for i in A.evaluate(ctx, 'Acceptance.vine-sample-tails', arecs):
            ctx.violation('C17|sample|tail-mass-of-sampled-columns-differs-from-fitted-marginals|%s' % ('lower', 'upper')[i],
                          '%s: observed %.5f expected 0.01 (band 0.0035) over %d sampled values of two-column models' % (arecs[i]['id'], (tl[0], tl[1])[i] / tl[2], tl[2]),
                          {'tails': tl})
    ctx.traces += len(log)
    ctx.extra['edges_checked'] = sum(len(t) for r in log for t in r['trees'])
    ctx.extra['likelihood_rows'] = sum(len(r['lik']) for r in log)
    for rec in log:
        ctx.case(json.dumps([rec['vtype'], rec['n'], rec['trunc'], rec['src'], [[(e['L'], e['R'], e['D']) for e in t] for t in rec['trees']]]),
                 nontrivial=(len(rec['trees']) >= 2 or 'sample_stats' in rec))
    ctx.sample({'vtype': log[0]['vtype'], 'n': log[0]['n'], 'first_tree': log[0]['trees'][:1], 'lik': log[0]['lik']})
    for line, probs in verdict[-1][0]:
        rec = log[line - 1]
        for k, i, cl in probs:
            where = 'tree%d' % k if k else 'model'
            if cl == 'fit-raised' and rec['src'] in ('against-trend', 'near-dup') and ('Unable to compute tau' in rec['err'] or 'Constant column' in rec['err']):
                # the loud refusal of a nearly deterministic table beyond the first tree is finding F36 of C16; C17 speaks of fitted vines,
                # a vine that was not fitted is not observed here
                ctx.extra['nearly_deterministic_tables_refused_by_fit'] = ctx.extra.get('nearly_deterministic_tables_refused_by_fit', 0) + 1
                continue
            detail = (':' + rec['err'].split(':')[0]) if cl == 'fit-raised' else ''
            sig = 'C17|%s|n=%d|%s%s|%s' % (rec['vtype'], rec['n'], cl, detail, where)
            ctx.violation(sig, '%s (%s vine, %d columns, truncation %d, table %s, %s edge %d)' %
                          (cl + detail, rec['vtype'], rec['n'], rec['trunc'], rec['src'], where, i),
                          {k2: v for k2, v in rec.items()})
    ctx.exhaustive = False
