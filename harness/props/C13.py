"""C13  Gaussian-copula density/CDF equal the normal-score MVN, in any representation."""
import itertools
import math
import warnings
from multiprocessing import Pool

import numpy as np
import pandas as pd

from .. import observe_bi as O
from .C02 import config, table

LEVEL = 'exploration'
warnings.simplefilter('ignore')
S = O.S
LS = 1000000


def scores(m, rows, cols):
    from scipy import stats
    from copulas.utils import EPSILON
    return np.column_stack([stats.norm.ppf(np.clip(np.asarray(u.cdf(rows[c].to_numpy()), dtype=float), EPSILON, 1 - EPSILON))
                            for c, u in zip(cols, m.univariates)])


def log_mvn(Z, R):
    sign, logdet = np.linalg.slogdet(R)
    Ri = np.linalg.inv(R)
    d = R.shape[0]
    q = np.einsum('ij,jk,ik->i', Z, Ri, Z)
    return -0.5 * (q + logdet + d * math.log(2 * math.pi))


def bvn_cdf(a, b, rho):
    from scipy import integrate, stats
    if abs(rho) > 1 - 1e-12:
        return float(stats.norm.cdf(min(a, b))) if rho > 0 else float(max(0.0, stats.norm.cdf(a) + stats.norm.cdf(b) - 1))
    s = math.sqrt(1 - rho * rho)
    return integrate.quad(lambda x: stats.norm.pdf(x) * stats.norm.cdf((b - rho * x) / s), -np.inf, a, limit=200)[0]


def under(lg):
    """log densities below -700 are in the underflow range of doubles: all treated as 'zero density'"""
    lg = np.asarray(lg, dtype=float)
    with np.errstate(all='ignore'):
        return np.where(lg < -700.0, np.nan, lg)


def flog(a):
    with np.errstate(all='ignore'):
        return O.fx(under(np.log(np.asarray(a, dtype=float))), LS)


def _observe(job):
    ncol, relations, cfg, seed = job
    from copulas.multivariate import GaussianMultivariate
    rs = np.random.RandomState(seed)
    df = table(ncol, relations, rs, n=1234 if seed % 11 == 5 else 80, labels='int' if seed % 5 == 2 else 'str', scale=250.0 if seed % 9 == 4 else 1.0)
    as_array = seed % 7 == 3
    if as_array:        # the model is trained on a plain 2-D array: its columns are 0..d-1, and so are those of a frame made from an array
        df.columns = pd.RangeIndex(ncol)
    cols = list(df.columns)
    rec = {'kind': 'density', 'err': '', 'S': S, 'rep': [], 'ref': [], 'logp': [], 'logref': [], 'chains': [], 'crep': [], 'cref': [],
           'ctol': 20000 if ncol >= 3 else 200, 'desc': '%d|%s|%s' % (ncol, ','.join(relations[1:]), cfg)}
    st = np.random.get_state()
    try:
        np.random.seed(seed)
        m = GaussianMultivariate(**config(cfg, cols))
        if seed % 3 == 1:
            # a third of the models are instances that were already fitted to, and queried on, a table with another dependence
            # (every column shuffled on its own): the property speaks of the fitted model, whatever the instance did before
            old = pd.DataFrame({c: rs.permutation(df[c].to_numpy()) for c in cols})
            if seed % 2:      # the earlier table had the same columns in another order (and, now and then, one more in front)
                old = old[cols[::-1]]
                if seed % 4 == 1:
                    old.insert(0, 'extra', np.arange(len(old), dtype=float) % 7)
            m.fit(old)
            for f in (m.probability_density, m.log_probability_density, m.cumulative_distribution):
                try:
                    f(old.iloc[:3].copy())
                except Exception:
                    pass
            m.sample(2)
        m.fit(df.to_numpy().copy() if as_array else df.copy())
        if seed % 2 == 0:
            # another model is alive in the process: it learnt a table with every second column mirrored after this one was fitted, and was asked first
            try:
                other = GaussianMultivariate(**config(cfg, cols))
                odf = df.copy()
                for j, c in enumerate(cols):
                    if j % 2:
                        odf[c] = -odf[c].to_numpy()[::1] * 1.5 + 4.0
                other.fit(odf)
                for f in (other.probability_density, other.cumulative_distribution):
                    f(odf.iloc[:2].copy())
            except Exception:
                pass
        R = m.correlation.to_numpy()
        # query rows: inside the training range, far outside, and training rows
        q = df.iloc[:5].copy().reset_index(drop=True)
        extra = pd.DataFrame({c: df[c].mean() + df[c].std() * rs.choice([-6.0, -2.0, 0.3, 2.5, 9.0], size=5) for c in cols})
        rows = pd.concat([q, extra], ignore_index=True)
        nrow = len(rows)
        reps = []
        reps.append(np.asarray(m.probability_density(rows.copy()), dtype=float))
        for perm in list(itertools.permutations(cols))[1:5] + [tuple(cols[::-1])]:
            reps.append(np.asarray(m.probability_density(rows[list(perm)].copy()), dtype=float))
        reps.append(np.asarray(m.probability_density(rows.iloc[:, ::-1]), dtype=float))          # the frame's own reversed view
        reps.append(np.asarray(m.probability_density(rows.to_numpy().copy()), dtype=float))
        reps.append(np.array([float(np.ravel(m.probability_density(rows.iloc[i]))[0]) for i in range(nrow)]))       # Series, one row at a time
        reps.append(np.array([float(np.ravel(m.probability_density(rows.to_numpy()[i].copy()))[0]) for i in range(nrow)]))   # 1-D arrays
        reps.append(np.array([float(np.ravel(m.probability_density(rows.iloc[i][cols[::-1]]))[0]) for i in range(nrow)]))    # Series whose index is not in training order
        reps.append(np.asarray(m.probability_density(rows.iloc[::-1].copy()), dtype=float)[::-1])                  # reversed batch
        # work buffers: the same array / frame object is evaluated, overwritten in place with the rows in reversed order, and evaluated again
        buf = rows.to_numpy().copy()
        m.probability_density(buf)
        buf[:, :] = rows.to_numpy()[::-1]
        reps.append(np.asarray(m.probability_density(buf), dtype=float)[::-1])
        fbuf = rows.copy()
        m.probability_density(fbuf)
        for c in cols:
            fbuf[c] = rows[c].to_numpy()[::-1]
        reps.append(np.asarray(m.probability_density(fbuf), dtype=float)[::-1])
        far = pd.DataFrame({c: [1e9, -1e9] for c in cols})
        reps.append(np.asarray(m.probability_density(pd.concat([far, rows], ignore_index=True)), dtype=float)[2:])   # with far-out rows
        rec['rep'] = [flog(r).tolist() for r in reps]
        rec['logp'] = O.fx(under(np.asarray(m.log_probability_density(rows.copy()), dtype=float)), LS).tolist()
        rec['logref'] = rec['rep'][0]
        # log_probability_density is the logarithm of probability_density wherever the latter is positive - subnormal values
        # included - and minus infinity where it is exactly 0 (compared as doubles, not through the fixed-point tables)
        with np.errstate(all='ignore'):
            pdv = np.asarray(m.probability_density(rows.copy()), dtype=float)
            lpv = np.asarray(m.log_probability_density(rows.copy()), dtype=float)
            want = np.log(pdv)
        okl = (np.isneginf(want) & np.isneginf(lpv)) | (np.isfinite(want) & np.isfinite(lpv) & (np.abs(lpv - want) <= 1e-9 * np.maximum(1.0, np.abs(want))))
        if not np.all(okl | np.isnan(want)):
            rec['err'] = 'log_pdf-is-not-the-logarithm-of-pdf'
        Z = scores(m, rows, cols)
        if np.linalg.cond(R) < 1e4:
            lm = log_mvn(Z, R)
            rec['ref'] = O.fx(under(lm), LS).tolist()       # below -700 the density underflows to 0 (log = -inf)
        else:
            rec['ref'] = rec['rep'][0]              # singular correlation: the reference formula does not apply
        # CDF: monotone chains and representations (well-conditioned models: SciPy's MVN CDF refuses / loses accuracy on singular ones)
        if np.linalg.cond(R) >= 1e4:
            return rec
        base = rows.iloc[7]
        for c in cols:
            vals = df[c].mean() + df[c].std() * np.array([-5.0, -2.0, -0.5, 0.0, 0.8, 2.0, 6.0])
            chain = pd.DataFrame([base.to_dict()] * len(vals))
            chain[c] = vals
            rec['chains'].append(O.fx(np.asarray(m.cumulative_distribution(chain[cols]), dtype=float)).tolist())
        c0 = np.asarray(m.cumulative_distribution(rows.copy()), dtype=float)
        creps = [c0, np.asarray(m.cumulative_distribution(rows[cols[::-1]].copy()), dtype=float),
                 np.asarray(m.cumulative_distribution(rows.to_numpy().copy()), dtype=float),
                 np.array([float(np.ravel(m.cumulative_distribution(rows.iloc[i]))[0]) for i in range(nrow)]),
                 np.array([float(np.ravel(m.cumulative_distribution(rows.iloc[i][cols[::-1]]))[0]) for i in range(nrow)])]
        rec['crep'] = [O.fx(c).tolist() for c in creps]
        if ncol == 2 and np.linalg.cond(R) < 1e4:
            rho = R[0, 1] / math.sqrt(R[0, 0] * R[1, 1])
            rec['cref'] = O.fx(np.array([bvn_cdf(Z[i, 0] / math.sqrt(R[0, 0]), Z[i, 1] / math.sqrt(R[1, 1]), rho) for i in range(nrow)])).tolist()
    except Exception as ex:
        import traceback
        rec['err'] = 'raised-' + type(ex).__name__
        rec['trace'] = traceback.format_exc(limit=-2)[-300:]
    finally:
        np.random.set_state(st)
    return rec


def run(ctx):
    quick = ctx.tier == 'quick'
    ctx.rule = ('models fitted on the C02 table layouts (2..%d columns; independent / dependent / monotone / negative / constant columns; Gaussian, dict, '
                'KDE and default marginals): for 10 query rows (training rows and rows up to 9 standard deviations outside) the log density is '
                'obtained from a DataFrame in training order, 4 column permutations, a 2-D array, one Series (index in training order and reversed) / 1-D array per row, the reversed batch '
                'and a batch with far-out rows; TLC (GaussLaws) requires all representations to agree, to equal the harness\'s zero-mean MVN log '
                'density at the normal scores, log_pdf = log(pdf), the CDF to lie in [0,1], be non-decreasing along each coordinate, independent of '
                'the representation and (2 columns) equal to an independent bivariate-normal quadrature.  non-trivial = every model; distinct by '
                '(layout, configuration)') % (3 if quick else 4)
    ctx.assumptions = ['CDF tolerance 2e-4 for >= 3 columns (SciPy integrates the MVN CDF with a randomised quadrature), 2e-6 for 2 columns',
                       'the reference density / CDF formulas are applied to well-conditioned fitted correlations (cond < 1e4) only: SciPy treats near-singular matrices with a pseudo-inverse and its bivariate CDF is only good to ~2e-5 at |rho| ~ 1']
    RELS = ('independent', 'dependent', 'negative', 'monotone', 'constant', 'weak')
    CFGS = ('gaussian-class', 'dict', 'kde') if quick else ('gaussian-class', 'gaussian-name', 'instance', 'dict', 'kde', 'default')
    jobs = []
    for ncol in range(2, (3 if quick else 4) + 1):
        for rel in itertools.product(RELS, repeat=ncol - 1):
            for cfg in CFGS:
                jobs.append((ncol, ('first',) + rel, cfg, ctx.seed * 11 + len(jobs)))
    with Pool(16) as pool:
        obs = pool.map(_observe, jobs, chunksize=1)
    verdict = O.run_laws(ctx, 'GaussLaws.density', 'GaussLaws', [{k: v for k, v in o.items() if k not in ('desc', 'trace')} for o in obs])
    for o in obs:
        ctx.case(o['desc'])
    ctx.sample({'desc': obs[4]['desc'], 'rep0': obs[4]['rep'][:1], 'ref': obs[4]['ref']})
    for i, laws in verdict:
        o = obs[i]
        n, rel, cfg = o['desc'].split('|')
        for law in laws:
            ctx.violation('C13|%s|%s|%s' % (cfg, law, '+'.join(sorted(set(rel.split(','))))),
                          'Gaussian copula on a %s-column table (%s) with %s marginals violates %s %s' % (n, rel, cfg, law, o.get('trace', '')),
                          dict(o, rerun=['harness.props.C13._observe', list(jobs[i])]))
    ctx.traces += len(obs)          # observation tables / samples of the real code judged by TLC
    ctx.exhaustive = False
