"""Apalache runs (symbolic checks of the typed modules under spec/apalache).  Optional depth: a run that cannot be carried out (tool
missing, timeout) is reported in the evidence as 'not available', never as a verdict about the code."""
import os
import re
import shutil
import subprocess
import tempfile
from concurrent.futures import ThreadPoolExecutor

from . import tlc as T

DIR = os.path.join(T.VERIF, 'spec', 'apalache')


def check(module, args, timeout=600):
    """returns 'NoError', 'Error', or 'unavailable: ...'"""
    exe = shutil.which('apalache-mc')
    if not exe:
        return 'unavailable: apalache-mc not on PATH'
    out = tempfile.mkdtemp(prefix='apa', dir=T.workdir())
    try:
        p = subprocess.run([exe, 'check'] + list(args) + ['--out-dir=' + out, module + '.tla'], cwd=DIR, stdout=subprocess.PIPE,
                           stderr=subprocess.STDOUT, timeout=timeout, text=True)
        m = re.search(r'The outcome is: (\w+)', p.stdout)
        return m.group(1) if m else 'unavailable: no outcome line (exit %d): %s' % (p.returncode, p.stdout[-300:])
    except subprocess.TimeoutExpired:
        return 'unavailable: timeout after %ds' % timeout
    finally:
        shutil.rmtree(os.path.dirname(out), ignore_errors=True)


def inductive(module, inv='IndInv', prop='Isolation', broken_next='NextNoFinally', timeout=600, extra=None):
    """the four runs of an inductive-invariant argument, in parallel: base case, inductive step, implication, and the non-vacuity run
    (the step must fail for the deliberately broken next-state relation)"""
    runs = {
        'base (Init => %s)' % inv: ['--init=Init', '--inv=' + inv, '--length=0'],
        'step (%s /\\ Next => %s\')' % (inv, inv): ['--init=IndInit', '--inv=' + inv, '--length=1'],
        'implication (%s => %s)' % (inv, prop): ['--init=IndInit', '--inv=' + prop, '--length=0'],
        'non-vacuity (step under %s must fail)' % broken_next: ['--init=IndInit', '--next=' + broken_next, '--inv=' + inv, '--length=1'],
    }
    runs.update(extra or {})
    with ThreadPoolExecutor(6) as ex:
        res = dict(zip(runs, ex.map(lambda a: check(module, a, timeout), runs.values())))
    return res
