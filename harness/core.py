"""Shared plumbing of the checks: context, violations, known findings, evidence, exit codes."""
import fnmatch
import re
import hashlib
import json
import os
import sys
import time
import traceback

from . import tlc as tlcmod

VERIF = tlcmod.VERIF
EVID = os.environ.get('VERIF_EVIDENCE_DIR') or os.path.join(VERIF, 'evidence')
REPLAYS = os.path.join(EVID, 'replays')
FINDINGS = os.path.join(VERIF, 'known_findings.json')


def jdefault(o):
    import numpy as np
    if isinstance(o, (np.integer,)):
        return int(o)
    if isinstance(o, (np.floating,)):
        return float(o)
    if isinstance(o, np.ndarray):
        return o.tolist()
    if isinstance(o, (set, frozenset)):
        return sorted(o, key=repr)
    if isinstance(o, tuple):
        return list(o)
    return repr(o)


class MachineryError(Exception):
    pass


class Ctx(object):
    """One run of one property's check."""

    def __init__(self, pid, tier, seed, level):
        self.pid = pid
        self.tier = tier
        self.seed_given = int(seed)
        self.seed = int(seed) % 101             # every derived seed (seed * k + i, k up to 3.3e7) stays below 2**32, whatever VERIF_SEED is
        self.level = level
        self.t0 = time.time()
        self.viol = {}          # signature -> dict(what, replay, count)
        self.states = 0
        self.transitions = 0
        self.traces = 0
        self.evaluations = 0
        self.cases = set()      # descriptors of distinct non-trivial cases
        self.samples = []
        self.rule = ''
        self.assumptions = []
        self.extra = {}
        self.exhaustive = None
        self.tlc_runs = []
        with open(FINDINGS) as f:
            self.findings = json.load(f)['findings']

    # ---- bookkeeping -------------------------------------------------------------------
    def note_tlc(self, name, r):
        self.states += r.distinct
        self.transitions += r.generated
        self.tlc_runs.append({'spec': name, 'distinct': r.distinct, 'generated': r.generated,
                              'wall_s': round(r.wall, 2)})

    def tlc(self, name, module, cfg, must_hold=True, **kw):
        """Run TLC; a violated invariant of a *design* model on the unchanged specification is a
        machinery failure unless the caller says it expects one (must_hold=False)."""
        r = tlcmod.run(module, cfg, **kw)
        self.note_tlc(name, r)
        if must_hold and not r.ok:
            raise MachineryError('specification %s/%s: TLC reports %s\n%s' %
                                 (module, name, r.violated or 'deadlock', r.raw[-2500:]))
        return r

    def case(self, descriptor, nontrivial=True):
        self.evaluations += 1
        if nontrivial:
            self.cases.add(descriptor if isinstance(descriptor, str) else json.dumps(descriptor, sort_keys=True, default=jdefault))

    def sample(self, obj, limit=6):
        if len(self.samples) < limit:
            self.samples.append(obj)

    def violation(self, signature, what, replay=None):
        """Record a violation.  `signature` identifies the failing input / call site / history
        shape; it is what known_findings.json entries are matched against."""
        v = self.viol.get(signature)
        if v is None:
            self.viol[signature] = {'what': what, 'replay': replay, 'count': 1}
        else:
            v['count'] += 1

    # ---- finishing ---------------------------------------------------------------------
    def _match(self, signature):
        for f in self.findings:
            if f.get('status') != 'open' or f.get('property') != self.pid:
                continue
            for pat in f.get('signatures', []):
                if signature == pat or re.fullmatch('.*'.join(re.escape(x) for x in pat.split('*')), signature):
                    return f
        return None

    def finish(self):
        new = []
        known = {}
        for sig, v in sorted(self.viol.items()):
            f = self._match(sig)
            if f is None:
                new.append((sig, v))
            else:
                known.setdefault(f['id'], (f, []))[1].append(sig)
        for fid, (f, sigs) in sorted(known.items()):
            print('KNOWN-FINDING: property=%s %s [%s; %d signature(s) seen, e.g. %s]' %
                  (self.pid, f['what'], fid, len(sigs), sigs[0]))
        os.makedirs(REPLAYS, exist_ok=True)
        for sig, v in new:
            body = {'property': self.pid, 'signature': sig, 'what': v['what'], 'count': v['count'],
                    'seed': self.seed_given, 'tier': self.tier, 'case': v['replay']}
            txt = json.dumps(body, indent=1, default=jdefault, sort_keys=True)
            h = hashlib.sha1(sig.encode()).hexdigest()[:12]
            path = os.path.join(REPLAYS, '%s-%s.json' % (self.pid, h))
            with open(path, 'w') as fh:
                fh.write(txt)
            print('VIOLATION property=%s replay=%s' % (self.pid, os.path.relpath(path, VERIF)))
            print('  signature: %s' % sig)
            print('  what: %s (x%d)' % (v['what'], v['count']))
        self.write_evidence(len(new), sorted(known))
        return 1 if new else 0

    def write_evidence(self, nviol, known_ids):
        cov = {
            'evaluations': int(self.evaluations),
            'distinct_nontrivial': int(len(self.cases)),
            'rule': self.rule,
            'samples': self.samples or ['(none)'],
            'states': int(self.states),
            'transitions': int(self.transitions),
            'traces_validated_against_impl': int(self.traces),
            'tlc_runs': self.tlc_runs,
            'known_findings_seen': known_ids,
        }
        if self.exhaustive is not None:
            cov['exhaustive'] = bool(self.exhaustive)
        cov.update(self.extra)
        ev = {
            'property_id': self.pid,
            'tier': self.tier,
            'seed': int(self.seed_given),
            'level': self.level,
            'coverage': cov,
            'assumptions': self.assumptions,
            'wall_s': round(time.time() - self.t0, 2),
            'violations': int(nviol),
        }
        # extra checks (ids not starting with C: parts of the system no listed property speaks about) keep their evidence apart
        evid = EVID if self.pid.startswith('C') else os.path.join(os.path.dirname(EVID.rstrip('/')), 'evidence_extra')
        os.makedirs(evid, exist_ok=True)
        with open(os.path.join(evid, self.pid + '.json'), 'w') as f:
            json.dump(ev, f, indent=1, default=jdefault)


def main(argv):
    import argparse
    import importlib
    ap = argparse.ArgumentParser()
    ap.add_argument('pid')
    ap.add_argument('--tier', default=os.environ.get('VERIF_TIER') or 'quick')
    ap.add_argument('--replay', default=None)
    a = ap.parse_args(argv)
    seed = int(os.environ.get('VERIF_SEED') or 0)
    tier = a.tier if a.tier in ('quick', 'thorough') else 'quick'
    src = os.environ.get('COPULAS_SRC')
    if src:
        sys.path.insert(0, src)
    try:
        mod = importlib.import_module('harness.props.' + a.pid)
    except ImportError:
        traceback.print_exc()
        print('no such check: %s' % a.pid)
        return 2
    try:
        import copulas
        if a.replay:
            with open(a.replay) as f:
                body = json.load(f)
            if hasattr(mod, 'replay'):
                return mod.replay(body)
            rr = (body.get('case') or {}).get('rerun') if isinstance(body.get('case'), dict) else None
            print('signature: %s\nwhat: %s' % (body.get('signature'), body.get('what')))
            if rr:
                m2, fn = rr[0].rsplit('.', 1)
                job = rr[1]
                if isinstance(job, list):
                    job = tuple(tuple(x) if isinstance(x, list) else x for x in job)
                out = getattr(importlib.import_module(m2), fn)(job)
                print('re-executed %s on the current tree; observation:' % rr[0])
                print(json.dumps(out, indent=1, default=jdefault)[:6000])
            else:
                print(json.dumps(body, indent=1)[:6000])
            return 0
        ctx = Ctx(a.pid, tier, seed, mod.LEVEL)
        ctx.extra['copulas_path'] = os.path.dirname(copulas.__file__)
        # watchdog: a check that does not finish (a call of the library that never returns, outside the places that carry their own
        # wall-clock limit) ends as a machinery failure instead of hanging for ever
        import signal
        limit = int(os.environ.get('VERIF_WATCHDOG') or (3000 if tier == 'quick' else 6 * 3600))

        def _watchdog(signum, frame):
            raise MachineryError('watchdog: the check did not finish within %d s' % limit)
        signal.signal(signal.SIGALRM, _watchdog)
        signal.alarm(limit)
        try:
            mod.run(ctx)
        finally:
            signal.alarm(0)
        return ctx.finish()
    except (MachineryError, tlcmod.TlcError) as e:
        print('MACHINERY-FAILURE: %s' % e)
        if 'watchdog' in str(e):
            # worker processes of a pool may still be spinning: take the whole process group down with us
            try:
                import multiprocessing
                for p in multiprocessing.active_children():
                    p.kill()
            except Exception:
                pass
            sys.stdout.flush()
            os._exit(2)
        return 2
    except Exception:
        tb = traceback.format_exc()
        # an exception that came out of the library where the harness expected a value: the property promised a result, so this is
        # reported as a violation (with the traceback as the replay), not as a failure of the machinery
        frames = re.findall(r'File "([^"]*/copulas/[^"]*)", line (\d+), in (\w+)', tb)
        frames = [f for f in frames if '/verif/' not in f[0]]
        if frames and 'ctx' in locals():
            fn = '%s.%s' % (os.path.basename(frames[-1][0]).replace('.py', ''), frames[-1][2])
            exc = tb.strip().splitlines()[-1].split(':')[0].split('.')[-1]
            ctx.violation('%s|library-raised|%s|%s' % (a.pid, exc, fn),
                          'the library raised %s in %s where the check expected a value; the check stopped there' % (exc, fn), {'traceback': tb[-3000:]})
            ctx.rule = ctx.rule or 'stopped by an exception of the library'
            return ctx.finish()
        print(tb)
        print('MACHINERY-FAILURE: unexpected exception in harness')
        return 2
