---------------------------- MODULE RandomStateMech ----------------------------
(***************************************************************************)
(* The swap-in / swap-out mechanism behind C15, at the grain of the calls   *)
(* copulas.utils.set_random_state / @random_state make:                     *)
(*    Enter:  original := get_state(); set_state(model generator)           *)
(*    body :  draws from the global generator, may raise                     *)
(*    Exit :  (finally) model := get_state(); set_state(original)           *)
(* Scopes nest (the dataset generators open a scope inside a scope; a        *)
(* wrapper model delegates to an inner model).  Generator states are free    *)
(* terms as in Session.                                                      *)
(*                                                                           *)
(* UseFinally / WritesBack describe the code; with their real values (TRUE)  *)
(* the invariants hold for every nesting and every raise point; selfcheck    *)
(* runs the model with UseFinally = FALSE to show TLC then finds the         *)
(* exception-path leak (non-vacuity).                                        *)
(***************************************************************************)
EXTENDS Integers, Sequences, FiniteSets, TLC

CONSTANTS Models,       \* model handles (1..N)
          MaxDepth,     \* maximum nesting of scopes
          MaxDraws,     \* bound on draws per behaviour
          MaxCalls,     \* bound on completed top-level calls
          UseFinally, WritesBack

NONE == <<>>
VARIABLES G,        \* the process-wide generator
          M,        \* M[o]: generator owned by model o (NONE for unseeded models)
          stack,    \* open scopes, innermost last: [o, saved, entry]
          exc,      \* an exception is propagating
          user,     \* ghost: what the user-visible global generator should be (moved only by unseeded draws)
          ndraws, ncalls, hist
vars == <<G, M, stack, exc, user, ndraws, ncalls, hist>>
NoHist == <<G, M, stack, exc, user, ndraws, ncalls>>    \* VIEW for the exhaustive configurations

Adv(t, d) == Append(t, d)
Init ==
  /\ G = <<"G", 0>>
  /\ \E S \in SUBSET Models : M = [o \in Models |-> IF o \in S THEN <<"S", o>> ELSE NONE]   \* seeded or not
  /\ stack = <<>> /\ exc = FALSE /\ user = G /\ ndraws = 0 /\ ncalls = 0 /\ hist = <<>>

Top == stack[Len(stack)]
Log(r) == hist' = Append(hist, [ev |-> r, G |-> G', M |-> M'])   \* the record carries the post-state

\* a decorated method of model o is called (from user code or from an outer body)
Enter(o) ==
  /\ ~exc /\ Len(stack) < MaxDepth /\ ncalls < MaxCalls
  /\ \A i \in 1..Len(stack) : stack[i].o # o            \* no re-entrancy on the same model
  /\ IF M[o] = NONE
     THEN /\ stack' = Append(stack, [o |-> o, saved |-> NONE, entry |-> NONE])   \* no swap: body runs on the current generator
          /\ G' = G
     ELSE /\ stack' = Append(stack, [o |-> o, saved |-> G, entry |-> M[o]])
          /\ G' = M[o]
  /\ UNCHANGED <<M, exc, user, ndraws, ncalls>>
  /\ Log([e |-> "Enter", o |-> o])

\* a scope seeded ad hoc (datasets: set_random_state(RandomState(seed), dummy)): the state is discarded on exit
EnterScratch(s) ==
  /\ ~exc /\ Len(stack) < MaxDepth /\ ncalls < MaxCalls
  /\ stack' = Append(stack, [o |-> 0, saved |-> G, entry |-> <<"S", s>>])
  /\ G' = <<"S", s>>
  /\ UNCHANGED <<M, exc, user, ndraws, ncalls>>
  /\ Log([e |-> "EnterScratch", s |-> s])

Swapped == \E i \in 1..Len(stack) : stack[i].saved # NONE

Draw ==
  /\ ~exc /\ ndraws < MaxDraws
  /\ G' = Adv(G, "d")
  /\ user' = IF Swapped THEN user ELSE Adv(user, "d")   \* only draws outside every seeded scope move the user's generator
  /\ ndraws' = ndraws + 1
  /\ UNCHANGED <<M, stack, exc, ncalls>>
  /\ Log([e |-> "Draw"])

Raise ==
  /\ ~exc /\ stack # <<>>
  /\ exc' = TRUE
  /\ UNCHANGED <<G, M, stack, user, ndraws, ncalls>>
  /\ Log([e |-> "Raise"])

\* leaving the innermost scope, normally or while an exception propagates
Exit ==
  /\ stack # <<>>
  /\ LET f == Top
         restore == (~exc) \/ UseFinally
     IN /\ IF f.saved = NONE
           THEN /\ G' = G /\ M' = M
           ELSE /\ G' = IF restore THEN f.saved ELSE G
                /\ M' = IF f.o # 0 /\ restore /\ WritesBack THEN [M EXCEPT ![f.o] = G] ELSE M
  /\ stack' = SubSeq(stack, 1, Len(stack) - 1)
  /\ exc' = (exc /\ Len(stack) > 1)                       \* the user catches it at top level
  /\ ncalls' = IF Len(stack) = 1 THEN ncalls + 1 ELSE ncalls
  /\ UNCHANGED <<user, ndraws>>
  /\ Log([e |-> IF exc THEN "ExitRaising" ELSE "Exit"])

UserDraw ==                         \* the user draws from the global generator between calls
  /\ stack = <<>> /\ ndraws < MaxDraws
  /\ G' = Adv(G, "d") /\ user' = Adv(user, "d") /\ ndraws' = ndraws + 1
  /\ UNCHANGED <<M, stack, exc, ncalls>>
  /\ Log([e |-> "UserDraw"])

Next ==
  \/ \E o \in Models : Enter(o)
  \/ \E s \in {7} : EnterScratch(s)
  \/ Draw \/ Raise \/ Exit \/ UserDraw

Spec == Init /\ [][Next]_vars

(* ---- properties ---------------------------------------------------------------------------- *)
IsPrefix(a, b) == Len(a) <= Len(b) /\ SubSeq(b, 1, Len(a)) = a

\* C15 isolation: between calls the global generator is exactly what the user's own draws made it,
\* whatever happened inside (nesting, exceptions).
Isolation == stack = <<>> => G = user

\* while inside a seeded scope the running generator extends the stream the scope was entered with
StreamExtends == \A i \in 1..Len(stack) : stack[i].saved # NONE /\ i = Len(stack) => IsPrefix(stack[i].entry, G)

\* a model's own generator only ever moves forward along its own stream (successive calls advance it,
\* never rewind it, never adopt somebody else's stream)
ModelStreamMonotone == [][\A o \in Models : M[o] # NONE => IsPrefix(M[o], M'[o])]_vars
UnseededStayUnseeded == [][\A o \in Models : (M[o] = NONE) <=> (M'[o] = NONE)]_vars

\* when a scope of model o closes, the model keeps exactly what its body consumed
WriteBackExact ==
  [][(stack # <<>> /\ stack' = SubSeq(stack, 1, Len(stack) - 1) /\ Top.o # 0 /\ Top.saved # NONE)
       => M'[Top.o] = G]_vars

\* the saved generators on the stack are restored in LIFO order: each frame's saved value is what the
\* generator will be once that frame is popped
NestedScopesCompose ==
  [][(stack # <<>> /\ stack' = SubSeq(stack, 1, Len(stack) - 1) /\ Top.saved # NONE) => G' = Top.saved]_vars

Emit == (stack = <<>> /\ (ncalls = MaxCalls \/ ndraws = MaxDraws)) => PrintT(<<"BEH", hist>>)
=============================================================================
