"""C15  Sampling is reproducible per model seed and never perturbs the global RNG."""
import hashlib
import json
import os
from multiprocessing import Pool

import numpy as np

from .. import bindings as B
from .. import project as P
from .. import replay_session as R
from .. import tlc as T

LEVEL = 'model_checking'
CFG = os.path.join(T.SPEC, 'cfg')

CLAUSES = {
    'global-generator-differs', 'model-generator-differs', 'equal-generators-differ',
    'model-stream-not-advanced', 'global-stream-not-advanced', 'model-generator-presence-differs',
    'dataset-row-count',
}
EVENT_CLAUSES = {   # clauses that belong to C15 only on these events
    'result-differs': ('Sample', 'Dataset', 'GlobalDraw'),
    'unexpected-exception': ('Sample(seeded,fitted)', 'Sample(unseeded,fitted)', 'Dataset', 'SetSeed', 'GlobalDraw'),
    'expected-error-but-call-returned': ('SampleRaises',),
}


C15_EVENTS = ('Sample', 'SetSeed', 'GlobalSeed', 'GlobalDraw', 'Dataset', 'Reset')


def relevant(clause, shape):
    # C15 speaks about sampling calls, seeding and the dataset generators; what a fit does to the
    # generators is C19's business (history independence) and is reported there.
    if not shape.startswith(C15_EVENTS):
        return False
    if clause in CLAUSES:
        return True
    pre = EVENT_CLAUSES.get(clause, ())
    return any(shape.startswith(p) for p in pre)


ALPHA = ["Sample", "SampleRaises", "SetSeed", "GlobalSeed", "GlobalDraw"]
ALPHA_FIT = ALPHA + ["Fit"]


def gen_cfg(b, maxlen, alphabet=ALPHA, init='InitSetup', nobj=2, cfgs=('c1',), data=('A',), seeds=(1,), sizes=(2,)):
    return ('INIT %s\nNEXT Next\n' % init +
            R.session_constants(b, nobj, alphabet, maxlen, data=list(data), seeds=seeds, sizes=sizes,
                                cfgs=list(cfgs), arts=()) + 'INVARIANT Emit\nCHECK_DEADLOCK FALSE\n')


def plan_cfg(b, plan):
    """(cfg text, nobj, tlc kwargs) of one generation plan for one binding, or None."""
    if plan['kind'] == 'draw':
        if not b.draw_cfgs:
            return None
        cfg = gen_cfg(b, plan['maxlen'], alphabet=["New", "Fit", "Sample", "GlobalDraw"], init='Init', nobj=1,
                      cfgs=b.draw_cfgs, data=('A',))
        return cfg, 1, {}
    if plan.get('simulate'):
        cfg = gen_cfg(b, plan['depth'], alphabet=ALPHA_FIT)
        return cfg, 2, {'simulate': 'num=%d' % plan['simulate'], 'depth': plan['depth'] + 1}
    return gen_cfg(b, plan['maxlen'], alphabet=ALPHA_FIT if plan.get('fit') else ALPHA), 2, {}


def _gen(args):
    cfg, kw, seed = args
    behs, r = R.gen_behaviours(cfg, seed=seed if kw else None, **kw)
    seen = {}
    for h in behs:
        seen.setdefault(json.dumps(h, sort_keys=True), h)
    return list(seen.values()), r.distinct, r.generated


def _work(args):
    name, seedform, items = args
    b = B.by_name(name)
    out = {'name': name, 'seedform': seedform, 'viol': [], 'behaviours': 0, 'calls': 0, 'lines': 0,
           'states': 0, 'generated': 0, 'sample': None, 'cases': []}
    by_nobj = {}
    for behs, nobj in items:
        by_nobj.setdefault(nobj, []).extend(behs)
    for nobj, behs in sorted(by_nobj.items()):
        rp = R.Replayer(b, seedform, nobj)
        try:
            for i, h in enumerate(behs):
                rp.run_behaviour(i, h)
            verdict, tr = rp.validate({})
            out['behaviours'] += len(behs)
            out['cases'].extend(
                hashlib.sha1(('%s|%s|%s' % (name, seedform, json.dumps(h, sort_keys=True))).encode()).hexdigest()[:16]
                for h in behs if any(e['e'] == 'Sample' for e in h))
            out['calls'] += rp.calls
            out['lines'] += len(rp.log)
            if out['sample'] is None and behs:
                out['sample'] = {'binding': name, 'behaviour': behs[len(behs) // 2]}
            for line, clause in verdict:
                bi, ei, shape = rp.where[line - 1]
                if relevant(clause, shape):
                    out['viol'].append({'clause': clause, 'shape': shape, 'behaviour': behs[bi], 'event_index': ei,
                                        'logged': rp.log[line - 1], 'seedform': seedform, 'binding': name})
        finally:
            rp.close()
    return out


# ---- RandomStateMech bound to the real copulas.utils ------------------------------------------
class _Boom(Exception):
    pass


def replay_mech(behs):
    """Drive copulas.utils.random_state / set_random_state along RandomStateMech behaviours and
    compare the global and per-model generator with the specification's tokens after every step."""
    from copulas.utils import random_state, set_random_state, validate_random_state

    class Model(object):
        def __init__(self, seed):
            self.random_state = validate_random_state(seed)

        def set_random_state(self, rs):
            self.random_state = validate_random_state(rs)

        @random_state
        def call(self, body):
            return body()

    problems = []
    nsteps = 0
    for bi, h in enumerate(behs):
        first = h[0]
        np.random.seed(0)
        tok2fp = {}
        # initial M is not in the first record's pre-state; recover seeds from the tokens (<<"S", o>>)
        seeded = set()
        for rec in h:
            for i, m in enumerate(rec['M'], 1):
                if m:
                    seeded.add(i)
        models = {i: Model(i if i in seeded else None) for i in range(1, len(first['M']) + 1)}

        def observe(rec, pos):
            for tok, fp in [(rec['G'], P.fp_global())] + [
                    (m, P.fp_model_rng(models[i])) for i, m in enumerate(rec['M'], 1)]:
                key = json.dumps(tok)
                if tok == []:
                    if fp is not None:
                        problems.append((bi, pos, 'unseeded model acquired a generator'))
                    continue
                if fp is None:
                    problems.append((bi, pos, 'seeded model lost its generator'))
                    continue
                if tok2fp.setdefault(key, fp) != fp:
                    problems.append((bi, pos, 'generator state differs from specification at %s' % rec['ev']['e']))
                    tok2fp[key] = fp

        def run(pos):
            """execute the events of one body starting at pos; returns the position after its Exit"""
            nonlocal nsteps
            while pos < len(h):
                rec = h[pos]
                e = rec['ev']['e']
                nsteps += 1
                if e in ('Draw', 'UserDraw'):
                    np.random.random_sample()
                    observe(rec, pos)
                    pos += 1
                elif e in ('Enter', 'EnterScratch'):
                    box = {}

                    def body(p=pos, r=rec):
                        observe(r, p)
                        box['pos'] = run(p + 1)
                    try:
                        if e == 'Enter':
                            models[rec['ev']['o']].call(body)
                        else:
                            with set_random_state(validate_random_state(int(rec['ev']['s'])), lambda st: None):
                                body()
                    except _Boom:
                        # the real scope has just run its clean-up; the specification's next step is
                        # the ExitRaising of this scope
                        q = unwind[0]
                        if q >= len(h) or h[q]['ev']['e'] != 'ExitRaising':
                            raise AssertionError('behaviour and execution out of step')
                        observe(h[q], q)
                        unwind[0] = q + 1
                        raise
                    pos = box['pos']
                    observe(h[pos - 1], pos - 1)
                elif e == 'Raise':
                    observe(rec, pos)
                    unwind[0] = pos + 1
                    raise _Boom()
                elif e == 'Exit':
                    return pos + 1
                else:
                    raise KeyError(e)
            return pos

        unwind = [0]
        pos = 0
        while pos < len(h):
            try:
                pos = run(pos)
            except _Boom:
                pos = unwind[0]
    return problems, nsteps


def run(ctx):
    quick = ctx.tier == 'quick'
    ctx.rule = ('TLC enumerates every behaviour of Session (C15 alphabet: Sample, SampleRaises, SetSeed, GlobalSeed, '
                'GlobalDraw, Fit; 2 objects, all seeded/unseeded and fitted/unfitted set-ups) up to the tier bound, '
                'plus simulated longer ones; each is executed on real objects of every sampler class; a case is one '
                '(class binding, seed form, behaviour) triple; non-trivial = the behaviour contains at least one '
                'sampling call on a fitted model; distinct by content')
    ctx.assumptions = ['generator states are compared through their full MT19937 state (key, position, gauss cache)',
                       'set-up objects are deep copies of once-fitted templates',
                       'bundled dataset generators are exercised with sizes 1, 2 and 50']
    b0 = B.by_name('GaussianUnivariate')
    # 1. design-level model checking of the RNG discipline
    mc = open(os.path.join(CFG, 'Session.c15.mc.cfg')).read()
    if quick:
        mc = mc.replace('MaxLen = 4', 'MaxLen = 3')
    ctx.tlc('Session.c15.mc', 'Session', mc, coverage=False, timeout=600)
    dev = ctx.tlc('Session.c15.dev', 'Session', mc.replace('DevSeedIgnored = FALSE', 'DevSeedIgnored = TRUE')
                  .replace('MaxLen = 4', 'MaxLen = 3'), must_hold=False, timeout=600)
    if not ({'GlobalIsolation', 'SeededSampleKeepsGlobal'} & set(dev.violated)):
        raise RuntimeError('non-vacuity: deviation DevSeedIgnored not refuted by TLC: %s' % dev.violated)
    ctx.tlc('RandomStateMech.mc', 'RandomStateMech', os.path.join(CFG, 'RandomStateMech.mc.cfg'), timeout=600)
    nf = ctx.tlc('RandomStateMech.nofinally', 'RandomStateMech', os.path.join(CFG, 'RandomStateMech.nofinally.cfg'),
                 must_hold=False, timeout=600)
    if not nf.violated:
        raise RuntimeError('non-vacuity: RandomStateMech without finally not refuted')
    # 2. mechanism bound to copulas.utils
    r = T.run('RandomStateMech', os.path.join(CFG, 'RandomStateMech.gen.cfg'), workers=1,
              simulate='num=%d' % (300 if quick else 3000), depth=40, seed=ctx.seed + 1, timeout=600)
    mb = {}
    for x in r.tagged('BEH'):
        mb[json.dumps(x[0], sort_keys=True)] = x[0]
    mbehs = list(mb.values())
    problems, nsteps = replay_mech(mbehs)
    ctx.traces += len(mbehs)
    ctx.evaluations += len(mbehs)
    ctx.extra['mechanism_behaviours'] = len(mbehs)
    ctx.extra['mechanism_steps'] = nsteps
    for bi, pos, what in problems[:50]:
        ev = mbehs[bi][pos]['ev']
        ctx.violation('C15|utils.random_state|%s|%s' % (what, ev['e']), what,
                      {'kind': 'mech', 'behaviour': mbehs[bi], 'position': pos})
    # 3. Session behaviours on every sampler class
    plans = [{'kind': 'main', 'maxlen': 3 if quick else 4, 'fit': not quick},
             {'kind': 'main', 'maxlen': 3, 'simulate': 100 if quick else 1500, 'depth': 6 if quick else 8},
             {'kind': 'draw', 'maxlen': 4 if quick else 5}]
    binds = B.all_bindings()
    plans_rs = [{'kind': 'main', 'maxlen': 2 if quick else 3}, {'kind': 'draw', 'maxlen': 4}]
    want = []          # (binding name, seedform, [cfg keys])
    gens = {}
    for b in binds:
        for form, pl in (('int', plans), ('rs', plans_rs)):
            keys = []
            for plan in pl:
                pc = plan_cfg(b, plan)
                if pc is None:
                    continue
                cfg, nobj, kw = pc
                key = (cfg, json.dumps(kw, sort_keys=True))
                gens.setdefault(key, (cfg, kw, ctx.seed + 11))
                keys.append((key, nobj))
            want.append((b.name, form, keys))
    with Pool(min(16, len(gens))) as pool:
        gkeys = list(gens)
        gout = pool.map(_gen, [gens[k] for k in gkeys], chunksize=1)
    gmap = dict(zip(gkeys, gout))
    for behs, distinct, generated in gout:
        ctx.states += distinct
        ctx.transitions += generated
    jobs = [(n, form, [(gmap[k][0], nobj) for k, nobj in keys]) for n, form, keys in want]
    jobs.sort(key=lambda j: -sum(len(x[0]) for x in j[2]) * (8 if 'Vine' in j[0] else 1))
    jobs.append(('__datasets__', 'int', None))
    with Pool(min(16, len(jobs))) as pool:
        results = pool.map(_dispatch, jobs, chunksize=1)
    for res in results:
        ctx.states += res['states']
        ctx.transitions += res['generated']
        ctx.traces += res['behaviours']
        ctx.evaluations += res['behaviours']
        ctx.extra.setdefault('real_calls', 0)
        ctx.extra['real_calls'] += res['calls']
        ctx.extra.setdefault('trace_lines_validated', 0)
        ctx.extra['trace_lines_validated'] += res['lines']
        for k in res.get('cases', []):
            ctx.cases.add(k)
        if res['sample']:
            ctx.sample(res['sample'])
        for v in res['viol']:
            sig = 'C15|%s|%s|%s' % (v['binding'], v['clause'], v['shape'])
            ctx.violation(sig, '%s on %s during %s' % (v['clause'], v['binding'], v['shape']), v)
    ctx.exhaustive = False


def _dispatch(job):
    if job[0] == '__datasets__':
        return _datasets(job)
    res = _work(job)
    return res


class DatasetBinding(B.Binding):
    name = 'datasets'
    kind = 'datasets'
    valid = ()
    methods = ('pdf',)


def _datasets(job):
    from copulas import datasets as D
    fn = {'age_income': D.sample_bivariate_age_income, 'xyz': D.sample_trivariate_xyz,
          'bernoulli': D.sample_univariate_bernoulli, 'bimodal': D.sample_univariate_bimodal,
          'uniform': D.sample_univariate_uniform, 'normal': D.sample_univariate_normal,
          'degenerate': D.sample_univariate_degenerate, 'exponential': D.sample_univariate_exponential,
          'beta': D.sample_univariate_beta, 'univariates': D.sample_univariates}
    b = DatasetBinding()
    cfg = ('INIT Init\nNEXT Next\n' + R.session_constants(b, 1, ["Dataset", "GlobalDraw", "GlobalSeed"], 2, data=[],
                                                          seeds=(1, 2), sizes=(1, 2, 50), cfgs=['c1'], arts=()) +
           'INVARIANT Emit\nCHECK_DEADLOCK FALSE\n')
    behs, r = R.gen_behaviours(cfg)
    rp = R.Replayer(b, 'int', 1)
    out = {'name': 'datasets', 'viol': [], 'behaviours': len(behs), 'calls': 0, 'lines': 0, 'states': r.distinct,
           'generated': r.generated, 'sample': {'binding': 'datasets', 'behaviour': behs[len(behs) // 3]}}
    try:
        for bi, h in enumerate(behs):
            rp.objs, rp.arts, rp.cheap = {}, {}, {}
            np.random.seed(0)
            rp._emit({'e': 'Reset', 'su': []}, (bi, 0, 'Reset'))
            for ei, ev in enumerate(h, 1):
                rec = dict(ev)
                err, outid = '', 0
                shape = ev['e']
                try:
                    if ev['e'] == 'Dataset':
                        shape = 'Dataset(%s)' % ev['nm']
                        v = fn[ev['nm']](ev['n'], ev['s'])
                        rec['rows'] = int(len(v))
                        outid = rp.classes.exact_id('ds', P.digest(P.canon(v)))
                    elif ev['e'] == 'GlobalSeed':
                        np.random.seed(int(ev['s']))
                    elif ev['e'] == 'GlobalDraw':
                        np.random.random_sample(3)
                except Exception as ex:
                    err = type(ex).__name__
                    rec['rows'] = -1
                rp.calls += 1
                rp._emit(rec, (bi, ei, shape), out=outid, err=err)
        verdict, tr = rp.validate({})
        out['calls'] = rp.calls
        out['lines'] = len(rp.log)
        out['cases'] = ['datasets|' + json.dumps(h, sort_keys=True) for h in behs if any(e['e'] == 'Dataset' for e in h)]
        for line, clause in verdict:
            bi, ei, shape = rp.where[line - 1]
            if relevant(clause, shape):
                out['viol'].append({'clause': clause, 'shape': shape, 'behaviour': behs[bi], 'event_index': ei,
                                    'logged': rp.log[line - 1], 'seedform': 'int', 'binding': 'datasets'})
    finally:
        rp.close()
    return out
