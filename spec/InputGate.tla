------------------------------------------------------ MODULE InputGate ------------------------------------------------------
(* The admission gate in front of the multivariate fits (copulas.utils.check_valid_values, applied to GaussianMultivariate.fit *)
(* and VineCopula.fit).  The gate is a pipeline of four tests executed in a fixed order on a table; the order is observable:     *)
(* an empty table of strings is "empty", not "non-numerical", and the NaN test is only defined for numerical tables (np.isnan    *)
(* raises TypeError on an object array), so it has to come after the type test.                                                  *)
(*                                                                                                                               *)
(* One action per stage of the code:                                                                                             *)
(*   Unwrap      DataFrame -> its numpy view (the dtype of the view is the common dtype of the columns)                          *)
(*   TestLen     `if not len(W)`                          -> ValueError "Your dataset is empty."                                 *)
(*   TestDtype   `issubdtype(floating) or issubdtype(integer)` -> ValueError "There are non-numerical values in your data."      *)
(*   TestNan     `np.isnan(W).any()`                      -> ValueError "There are nan values in your data."                     *)
(*   Enter       the body of fit runs on the ORIGINAL argument X (not on the view)                                               *)
(* The switch Order chooses the pipeline: "code" is the order above; "nanfirst" tests NaN before the type (a plausible           *)
(* re-ordering that compiles and passes the tests) - TLC must refute OnlyValueError on it (non-vacuity of the property).         *)
EXTENDS Integers, Sequences, FiniteSets, TLC

CONSTANTS Order            \* "code" | "nanfirst"

Containers == {"ndarray", "frame"}
Rows       == {"none", "one", "many"}
\* common dtype of the view: frames of float and string columns have the view dtype "object"; bool is neither floating nor integer
Dtypes     == {"float64", "float32", "int64", "uint8", "bool", "object", "str", "mixed", "datetime"}
Nans       == {"clean", "nan", "inf"}

Floating(d) == d \in {"float64", "float32"}
Numeric(d)  == Floating(d) \/ d \in {"int64", "uint8"}
ViewDtype(d) == IF d = "mixed" THEN "object" ELSE d

Requests == {r \in [c : Containers, rows : Rows, d : Dtypes, n : Nans] :
               \* floating tables can hold NaN / inf, object arrays and frames with a string column can hold NaN / None; only non-empty ones
               /\ (r.n # "clean" => r.rows # "none" /\ (Floating(r.d) \/ (r.n = "nan" /\ r.d \in {"object", "mixed"})))
               /\ (r.d \in {"mixed", "datetime"} => r.c = "frame")}

VARIABLES req, stage, verdict, hist
vars == <<req, stage, verdict, hist>>

Init == /\ req \in Requests
        /\ stage = "start"
        /\ verdict = "pending"
        /\ hist = <<>>

Step(s, v) == /\ stage' = s
              /\ verdict' = v
              /\ hist' = Append(hist, stage)
              /\ UNCHANGED req

Unwrap == stage = "start" /\ Step("len", "pending")

TestLen == /\ stage = "len"
           /\ IF req.rows = "none" THEN Step("done", "empty")
              ELSE Step(IF Order = "code" THEN "dtype" ELSE "nan", "pending")

TestDtype == /\ stage = "dtype"
             /\ IF ~Numeric(ViewDtype(req.d)) THEN Step("done", "non-numerical")
                ELSE Step(IF Order = "code" THEN "nan" ELSE "body", "pending")

\* np.isnan is defined on numerical arrays only; on an object / string / datetime view it raises TypeError (datetime: answers for NaT - no NaT in the alphabet)
TestNan == /\ stage = "nan"
           /\ IF ViewDtype(req.d) \in {"object", "str"} THEN Step("done", "TypeError")
              ELSE IF req.n = "nan" THEN Step("done", "nan")
              ELSE Step(IF Order = "code" THEN "body" ELSE "dtype", "pending")

Enter == stage = "body" /\ Step("done", "pass")

Next == Unwrap \/ TestLen \/ TestDtype \/ TestNan \/ Enter
Spec == Init /\ [][Next]_vars

------------------------------------------------------------------------------------------------------------------------------
(* The decision the gate has to take, as a function of the request alone (what a user relies on) *)
Decision(r) == IF r.rows = "none" THEN "empty"
               ELSE IF ~Numeric(ViewDtype(r.d)) THEN "non-numerical"
               ELSE IF r.n = "nan" THEN "nan"
               ELSE "pass"

Done == stage = "done"

TypeOK == /\ req \in Requests
          /\ stage \in {"start", "len", "dtype", "nan", "body", "done"}
          /\ verdict \in {"pending", "empty", "non-numerical", "nan", "pass", "TypeError"}

\* the pipeline computes the decision
Decides == Done => verdict = Decision(req)
\* every refusal is a ValueError with one of the three messages - never an exception of NumPy
OnlyValueError == verdict # "TypeError"
\* the body of fit is entered for admissible tables only (no NaN reaches the estimators, infinities do: the gate does not speak about them)
BodyOnlyIfAdmissible == stage = "body" => /\ req.rows # "none" /\ Numeric(ViewDtype(req.d)) /\ req.n # "nan"
\* the NaN test never runs on a table the type test has not admitted
NanAfterDtype == stage = "nan" => Numeric(ViewDtype(req.d))
\* the pipeline always terminates within five steps
Bounded == Len(hist) <= 5
\* a verdict, once taken, stays
VerdictStable == [][verdict # "pending" => verdict' = verdict]_vars

Emit == Done => PrintT(<<"GATE", req, verdict, hist>>)
==============================================================================================================================
