"""Spec -> code -> spec for Session: drive real objects along TLC-generated behaviours, log the
projected state after every call, and let TLC (SessionTrace) validate the log."""
import copy
import json
import os
import shutil
import tempfile
import traceback
import zlib

import numpy as np

from . import project as P
from . import tlc as T

NOBJ = 3


def norm_su(su):
    if isinstance(su, dict):
        return [su[k] for k in sorted(su)]
    return list(su)


class Replayer(object):
    def __init__(self, binding, seedform='int', nobj=NOBJ):
        self.b = binding
        self.seedform = seedform
        self.nobj = nobj
        self.classes = P.Classes()
        self.log = []
        self.where = []       # per log line: (behaviour index, event index, shape)
        self.tmp = tempfile.mkdtemp(prefix='sess', dir=T.workdir())
        self.calls = 0
        self.setups = {}

    def close(self):
        shutil.rmtree(os.path.dirname(self.tmp), ignore_errors=True)

    # ---------------------------------------------------------------------------------------
    def _state(self, touched, parchange):
        b = self.b
        life, rng, par = [], [], []
        for i in range(1, self.nobj + 1):
            m = self.objs.get(i)
            if m is None:
                life.append('absent')
                rng.append(0)
                par.append(0)
                continue
            lf = b.life(m)
            life.append(lf)
            fp = P.fp_model_rng(m)
            rng.append(0 if fp is None else self.classes.exact_id('rng', fp))
            if lf != 'fitted':
                par.append(0)
                self.cheap.pop(i, None)
                continue
            ch = b.cheap(m)
            old = self.cheap.get(i)
            if (i in touched and parchange) or old is None or not P.close(old[0], ch):
                pid = self.classes.tol_id('par', b.obs(m))
                self.cheap[i] = (ch, pid)
            par.append(self.cheap[i][1])
        return life, rng, par

    def _emit(self, rec, where, touched=(), parchange=False, out=0, err=''):
        life, rng, par = self._state(set(touched), parchange)
        rec = dict(rec)
        rec.update({'err': err, 'life': life, 'g': self.classes.exact_id('rng', P.fp_global()),
                    'rng': rng, 'par': par, 'out': out})
        self.log.append(rec)
        self.where.append(where)

    # ---------------------------------------------------------------------------------------
    def run_behaviour(self, bi, beh):
        b = self.b
        self.objs = {}
        self.arts = {}
        self.cheap = {}
        b._shared_rs = {}           # seed form 'shared': the RandomState objects handed out live for one behaviour
        np.random.seed(0)
        ev0 = beh[0] if beh and beh[0]['e'] == 'Setup' else None
        su_json = []
        if ev0 is not None:
            su = norm_su(ev0['su'])
            key = json.dumps(su, sort_keys=True)
            su_json = [{'c': x['c'], 's': x['s'], 'd': x['d']} for x in su]
            if key not in self.setups:
                # templates are built by the real constructor and the real fit, once per setup;
                # every behaviour then works on its own deep copy (models and their generators)
                objs = {}
                for i, x in enumerate(su, 1):
                    if x['d'] == 'absent':
                        continue
                    m = b.new(x['c'], x['s'], self.seedform)
                    if x['d'] != 'nodata':
                        if getattr(b, 'setup_past', False) and zlib.crc32(key.encode()) % 3 == 0:
                            # a third of the set-ups hold an instance with a past: it modelled other data and answered every kind of
                            # query before it was fitted to the data of the set-up (the specification's token is that of the last fit)
                            others = [d for d in b.valid if d != x['d']]
                            try:
                                b.fit(m, others[zlib.crc32(key.encode()) // 3 % len(others)])
                                for meth in b.obs_methods():
                                    b.query_any(m, meth)
                                b.sample(m, 2)
                            except Exception:
                                pass
                            b.fit(m, x['d'])
                            if x['s']:
                                b.set_seed(m, x['s'], self.seedform)        # the generator is that of a freshly seeded model again
                            objs[i] = m
                            continue
                        b.fit(m, x['d'])
                    objs[i] = m
                self.objs = objs
                np.random.seed(0)
                self._emit({'e': 'Reset', 'su': su_json}, (bi, 0, 'Reset'), touched=objs.keys(), parchange=True)
                self.setups[key] = (copy.deepcopy(objs), dict(self.cheap), self.log.pop(), self.where.pop())
            tmpl, cheap, rec, _w = self.setups[key]
            self.objs = copy.deepcopy(tmpl)
            self.cheap = dict(cheap)
            np.random.seed(0)
            self.log.append(rec)
            self.where.append((bi, 0, 'Reset'))
        else:
            self._emit({'e': 'Reset', 'su': su_json}, (bi, 0, 'Reset'), touched=(), parchange=True)
        self.artsrc = {}
        self.origin = {i: '%s,%s' % (x['c'], x['d']) for i, x in enumerate(norm_su(ev0['su']) if ev0 else [], 1)}
        lastdata = {i: (x['d'] if ev0 else None) for i, x in enumerate(norm_su(ev0['su']) if ev0 else [], 1)}
        for ei, ev in enumerate(beh[1:] if ev0 is not None else beh, 1):
            e = ev['e']
            rec = {k: v for k, v in ev.items()}
            out, err, touched, parchange = 0, '', (), False
            shape = e
            self.calls += 1
            try:
                if e == 'New':
                    self.objs[ev['o']] = b.new(ev['c'], ev['s'], self.seedform)
                    touched = (ev['o'],)
                elif e == 'SetSeed':
                    b.set_seed(self.objs[ev['o']], ev['s'], self.seedform)
                    shape = 'SetSeed(%s)' % ('none' if not ev['s'] else 'seed')
                elif e == 'GetInstance':
                    touched, parchange = (ev['o2'],), True
                    shape = 'GetInstance(%s)' % b.life(self.objs[ev['o']])
                    self.objs[ev['o2']] = b.get_instance(self.objs[ev['o']])
                elif e == 'Fit':
                    touched, parchange = (ev['o'],), True
                    prev = lastdata.get(ev['o'])
                    shape = 'Fit(%s after %s)' % (ev['d'], prev or 'none')
                    b.fit(self.objs[ev['o']], ev['d'])
                    lastdata[ev['o']] = ev['d']
                elif e == 'Query':
                    m = self.objs[ev['o']]
                    shape = 'Query(%s,%s)' % (ev['m'], b.life(m))
                    v = b.query_any(m, ev['m'])
                    out = self.classes.tol_id('q', P.canon(v))
                elif e == 'Sample':
                    m = self.objs[ev['o']]
                    shape = 'Sample(%s,%s)' % ('seeded' if m.random_state is not None else 'unseeded', b.life(m))
                    v = b.sample(m, ev['n'])
                    out = self.classes.exact_id('smp', P.digest(P.canon(v)))
                elif e == 'SampleRaises':
                    m = self.objs[ev['o']]
                    shape = 'SampleRaises(%s)' % ('seeded' if m.random_state is not None else 'unseeded')
                    b.sample_raises(m)
                elif e == 'GlobalSeed':
                    np.random.seed(int(ev['s']))
                elif e == 'GlobalDraw':
                    np.random.random_sample(3)
                    np.random.normal()          # leaves a cached Gaussian behind: part of the generator state a caller can observe
                elif e == 'ToDict':
                    m = self.objs[ev['o']]
                    shape = 'ToDict(%s)' % b.life(m)
                    d = b.to_dict(m)
                    self.arts[ev['k']] = ('dict', d)
                    self.artsrc[ev['k']] = self.origin.get(ev['o'], '?')
                    out = self.classes.tol_id('dict', P.canon(d))
                elif e == 'JsonTrip':
                    kind, d = self.arts[ev['k']]
                    self.arts[ev['k']] = ('dict', json.loads(json.dumps(d)))
                elif e == 'FromDict':
                    touched, parchange = (ev['o2'],), True
                    shape = 'FromDict(%s)[%s]' % (ev['via'], self.artsrc.get(ev['k'], '?'))
                    self.origin[ev['o2']] = self.artsrc.get(ev['k'], '?')
                    self.objs[ev['o2']] = b.from_dict(self.arts[ev['k']][1], ev['via'])
                elif e == 'Save':
                    path = os.path.join(self.tmp, 'art%s.bin' % ev['k'])
                    b.save(self.objs[ev['o']], path)
                    self.arts[ev['k']] = ('file', path)
                    self.artsrc[ev['k']] = self.origin.get(ev['o'], '?')
                elif e == 'Load':
                    touched, parchange = (ev['o2'],), True
                    shape = 'Load[%s]' % self.artsrc.get(ev['k'], '?')
                    self.origin[ev['o2']] = self.artsrc.get(ev['k'], '?')
                    self.objs[ev['o2']] = b.load(self.arts[ev['k']][1])
                else:
                    raise KeyError(e)
            except Exception as ex:
                err = type(ex).__name__
                self.last_tb = traceback.format_exc(limit=-3)
            self._emit(rec, (bi, ei, shape), touched, parchange, out, err)

    # ---------------------------------------------------------------------------------------
    def validate(self, facts, timeout=900):
        """Run SessionTrace over the log; returns list of (line, clause)."""
        path = os.path.join(self.tmp, 'trace.json')
        T.dump_json(path, self.log)
        cfg = trace_cfg(self.b, self.nobj, facts)
        r = T.run('SessionTrace', cfg, workers=1, env={'TRACE_FILE': path}, timeout=timeout)
        if 'POSTCONDITION' in r.violated or r.violated:
            raise T.TlcError('trace not consumed / TLC error for %s: %s\n%s' % (self.b.name, r.violated, r.raw[-3000:]))
        v = r.tagged('VERDICT')
        if not v:
            raise T.TlcError('no VERDICT printed for %s\n%s' % (self.b.name, r.raw[-3000:]))
        return [(int(x[0]), x[1]) for x in v[-1][0]], r


def tla_set(xs):
    return '{' + ', '.join(json.dumps(x) if isinstance(x, str) else str(x) for x in xs) + '}'


def session_constants(b, nobj, alphabet, maxlen, data=None, seeds=(1, 2), sizes=(2, 3), cfgs=None, arts=(1,),
                      methods=None, dev_seed_ignored=False):
    valid = list(data) if data is not None else list(b.valid)
    valid_set = [d for d in valid if d in b.valid]
    lines = [
        'Obj = ' + tla_set(range(1, nobj + 1)),
        'Data = ' + tla_set(valid),
        'ValidData = ' + tla_set(valid_set),
        'ConstData = ' + tla_set([d for d in valid_set if d in b.const]),
        'Seeds = ' + tla_set(seeds),
        'Sizes = ' + tla_set(sizes),
        'Cfgs = ' + tla_set(cfgs if cfgs is not None else b.cfgs),
        'DrawCfgs = ' + tla_set([c for c in (cfgs if cfgs is not None else b.cfgs) if c in b.draw_cfgs]),
        'Arts = ' + tla_set(arts),
        'Alphabet = ' + tla_set(alphabet),
        'Methods = ' + tla_set(methods if methods is not None else b.methods),
        'MaxLen = %d' % maxlen,
        'Rejects = %s' % ('TRUE' if b.rejects else 'FALSE'),
        'QueryDraws = %s' % ('TRUE' if b.query_draws else 'FALSE'),
        'DevSeedIgnored = %s' % ('TRUE' if dev_seed_ignored else 'FALSE'),
        'UnfittedDictOK = %s' % ('TRUE' if b.unfitted_dict_ok else 'FALSE'),
        'FileCarriesState = %s' % ('TRUE' if b.file_carries_state else 'FALSE'),
    ]
    return 'CONSTANTS\n  ' + '\n  '.join(lines) + '\n'


ALL_ACTIONS = ['New', 'SetSeed', 'GetInstance', 'Fit', 'FitRejected', 'Query', 'Sample', 'SampleRaises',
               'GlobalSeed', 'GlobalDraw', 'Dataset', 'ToDict', 'JsonTrip', 'FromDict', 'Save', 'Load']


def trace_cfg(b, nobj, facts):
    data = list(b.valid) + list(b.invalid)
    c = session_constants(b, nobj, ALL_ACTIONS, 100000, data=data, seeds=(1, 2, 3), sizes=(1, 2, 3, 4, 5),
                          arts=(1, 2), dev_seed_ignored=facts.get('dev_seed_ignored', False))
    return ('SPECIFICATION TSpec\n' + c +
            'INVARIANT Report\nPOSTCONDITION Consumed\nCHECK_DEADLOCK FALSE\n')


def gen_behaviours(cfg_text, simulate=None, depth=None, seed=None, timeout=900):
    """Run Session with the Emit invariant; return (behaviours, TlcResult)."""
    if simulate:
        r = T.run('Session', cfg_text, workers=1, simulate=simulate, depth=depth, seed=seed, timeout=timeout)
    else:
        r = T.run('Session', cfg_text, workers=1, timeout=timeout)
    if r.violated:
        raise T.TlcError('generation run reports %s\n%s' % (r.violated, r.raw[-2000:]))
    behs = [x[0] for x in r.tagged('BEH')]
    return behs, r
