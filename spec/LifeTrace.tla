--------------------------------- MODULE LifeTrace ---------------------------------
(***************************************************************************)
(* C19 on executions that were not designed by this framework: the            *)
(* repository's own end-to-end tests run under harness/recorder.py, which     *)
(* logs every outermost public call on a model object (fit, query, sample,    *)
(* to_dict) with the lifecycle state the public attributes show before (l0)   *)
(* and after (l1) the call and the class of the exception it raised (err).    *)
(* The lifecycle actions of Session say what must hold whatever the test was  *)
(* doing:                                                                      *)
(*   Fit returned            -> the model is fitted afterwards                 *)
(*   Fit raised              -> a multivariate model is in the state it had    *)
(*   Query / Sample unfitted -> raises NotFittedError                          *)
(*   Query / Sample / ToDict -> the lifecycle state does not change            *)
(*   per object              -> the state before a call is the state after the *)
(*                              previous logged call on that object            *)
(* (bivariate families have no fitted flag - a parameter stands for it, and   *)
(* tests assign parameters directly - so the continuity clause is applied to   *)
(* univariate and multivariate models only; the parameterless Independence     *)
(* family has no lifecycle).                                                   *)
(***************************************************************************)
EXTENDS Integers, Sequences, TLC, Json, IOUtils, TLCExt
LLog == JsonDeserialize(IOEnv.TRACE_FILE)
VARIABLE k
Init == k = 1
Next == k < Len(LLog) /\ k' = k + 1
Spec == Init /\ [][Next]_k

Reads == {"query", "sample", "to_dict"}
\* index of the previous logged call on the same object (0 if none)
Prev(i) == LET S == {j \in 1..(i - 1) : LLog[j].o = LLog[i].o} IN IF S = {} THEN 0 ELSE CHOOSE j \in S : \A h \in S : h <= j

Problems(i) ==
  LET r == LLog[i] IN
  IF r.l0 = "parameterless" THEN <<>> ELSE
  (IF r.m = "fit" /\ r.err = "" /\ r.l1 # "fitted" THEN <<"fit-returned-but-model-not-fitted">> ELSE <<>>) \o
  (IF r.m = "fit" /\ r.err # "" /\ r.grp = "multi" /\ r.l1 # r.l0 THEN <<"rejected-fit-changed-the-state">> ELSE <<>>) \o
  (IF r.m \in {"query", "sample"} /\ r.l0 = "unfitted" /\ r.err # "NotFittedError" THEN <<"unfitted-model-did-not-raise-NotFittedError">> ELSE <<>>) \o
  (IF r.m \in Reads /\ r.l1 # r.l0 THEN <<"read-only-call-changed-the-lifecycle-state">> ELSE <<>>) \o
  (IF r.grp # "bi" /\ Prev(i) # 0 /\ LLog[Prev(i)].l1 # r.l0 THEN <<"state-changed-between-calls">> ELSE <<>>)

TraceChecked == k = 1 => PrintT(<<"VERDICT", SelectSeq([i \in 1..Len(LLog) |-> <<i, Problems(i)>>], LAMBDA p : p[2] # <<>>)>>)
=============================================================================
