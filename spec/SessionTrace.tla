----------------------------- MODULE SessionTrace -----------------------------
(***************************************************************************)
(* Trace validation for Session: a log of calls made on the real library    *)
(* (one JSON record per call, written at the call's return or raise) is      *)
(* replayed through the actions of Session.  After every call the full       *)
(* projected state of the implementation is compared with the specification  *)
(* state: the log carries, for the global generator, each model's generator, *)
(* each model's observable behaviour and the call's result, the number of    *)
(* the projection's equivalence class; the specification carries a token.    *)
(* The implementation refines Session iff token |-> class is a function      *)
(* (checked with the `seen` maps) and the exact expectations (life cycle,    *)
(* error classes, advancing streams) hold.                                   *)
(*                                                                           *)
(* The verdict is total: a failed clause is recorded as <<line, clause>> and *)
(* the observed value is adopted, so the rest of the log is still checked.   *)
(***************************************************************************)
EXTENDS Session, Json, IOUtils, TLCExt

TLog == JsonDeserialize(IOEnv.TRACE_FILE)
NLines == Len(TLog)

VARIABLES l, seenG, seenPar, seenOut, verdict
tvars == <<vars, l, seenG, seenPar, seenOut, verdict>>

Ev == TLog[l]
ObjSeq == 1..Cardinality(Obj)

TInit ==
  /\ Init
  /\ l = 1 /\ seenG = <<>> /\ seenPar = <<>> /\ seenOut = <<>> /\ verdict = <<>>

\* ---- which Session action a log line stands for --------------------------------------------
SuOf(ev) == [o \in Obj |-> [c |-> ev.su[o].c, s |-> ev.su[o].s, d |-> ev.su[o].d]]

ResetTo(ev) ==           \* "Reset": a new behaviour starts; Setup information (possibly empty) is in ev.su
  /\ IF ev.su = <<>>
     THEN /\ life' = [o \in Obj |-> "absent"] /\ cfg' = [o \in Obj |-> NoCfg]
          /\ par' = [o \in Obj |-> NONE] /\ rng' = [o \in Obj |-> NONE]
          /\ hist' = <<>>
     ELSE LET su == SuOf(ev) IN
          /\ life' = [o \in Obj |-> IF su[o].d = "absent" THEN "absent" ELSE IF su[o].d = NoData THEN "unfitted" ELSE "fitted"]
          /\ cfg'  = [o \in Obj |-> su[o].c]
          /\ par'  = [o \in Obj |-> IF su[o].d = "absent" THEN NONE ELSE ParOfSetup(su[o])]
          /\ rng'  = [o \in Obj |-> IF su[o].s = 0 THEN NONE ELSE Fresh(su[o].s)]
          /\ hist' = <<[e |-> "Setup", su |-> su]>>
  /\ g' = G0 /\ art' = [k \in Arts |-> NoArt] /\ out' = <<"init">>

SessionAction(ev) ==
  CASE ev.e = "Reset"        -> ResetTo(ev)
    [] ev.e = "New"          -> New(ev.o, ev.c, ev.s)
    [] ev.e = "SetSeed"      -> SetSeed(ev.o, ev.s)
    [] ev.e = "GetInstance"  -> GetInstance(ev.o, ev.o2)
    [] ev.e = "Fit"          -> Fit(ev.o, ev.d) \/ FitRejected(ev.o, ev.d)
    [] ev.e = "Query"        -> Query(ev.o, ev.m) \/ QueryUnfitted(ev.o, ev.m)
    [] ev.e = "Sample"       -> Sample(ev.o, ev.n) \/ SampleUnfitted(ev.o, ev.n)
    [] ev.e = "SampleRaises" -> SampleRaises(ev.o)
    [] ev.e = "GlobalSeed"   -> GlobalSeed(ev.s)
    [] ev.e = "GlobalDraw"   -> GlobalDraw
    [] ev.e = "Dataset"      -> Dataset(ev.nm, ev.n, ev.s)
    [] ev.e = "ToDict"       -> ToDict(ev.o, ev.k) \/ ToDictUnfitted(ev.o, ev.k)
    [] ev.e = "JsonTrip"     -> JsonTrip(ev.k)
    [] ev.e = "FromDict"     -> FromDict(ev.k, ev.o2, ev.via)
    [] ev.e = "Save"         -> Save(ev.o, ev.k)
    [] ev.e = "Load"         -> Load(ev.k, ev.o2)

\* ---- comparing the primed specification state with the logged projections ----------------
\* A "binding problem" for token t and logged class c in map m: t already maps to another class.
Clash(m, t, c) == t \in DOMAIN m /\ m[t] # c
Put(m, t, c) == IF t \in DOMAIN m THEN [m EXCEPT ![t] = c] ELSE m @@ (t :> c)

RECURSIVE PutAll(_, _)
PutAll(m, pairs) == IF pairs = <<>> THEN m ELSE PutAll(Put(m, pairs[1][1], pairs[1][2]), Tail(pairs))

RECURSIVE PutNew(_, _)
PutNew(m, pairs) == IF pairs = <<>> THEN m
                    ELSE PutNew(IF pairs[1][1] \in DOMAIN m THEN m ELSE m @@ (pairs[1][1] :> pairs[1][2]), Tail(pairs))

\* pairs <<token, class>> for the generators after this step (global + each seeded model)
GenPairs(ev) ==
  <<<<g', ev.g>>>> \o
  SelectSeq([i \in ObjSeq |-> <<rng'[i], ev.rng[i]>>], LAMBDA p : p[1] # NONE)
ParPairs(ev) ==
  SelectSeq([i \in ObjSeq |-> <<par'[i], ev.par[i]>>], LAMBDA p : p[1] # NONE)

Fails(ev) ==
  LET okErr == out'[1] = "error"
      gp == GenPairs(ev)
      pp == ParPairs(ev)
      fresh == ev.e = "Reset"
      sg == IF fresh THEN <<>> ELSE seenG
      so == IF fresh THEN <<>> ELSE seenOut
  IN
  \* exact expectations ------------------------------------------------------------------
  (IF okErr /\ ev.err = "" THEN <<"expected-error-but-call-returned">> ELSE <<>>) \o
  (IF ~okErr /\ ev.err # "" THEN <<"unexpected-exception">> ELSE <<>>) \o
  (IF okErr /\ ev.err # "" /\ out'[2] # "any" /\ out'[2] # ev.err THEN <<"wrong-exception-class">> ELSE <<>>) \o
  (IF ev.e = "Dataset" /\ ev.err = "" /\ ev.rows # ev.n THEN <<"dataset-row-count">> ELSE <<>>) \o
  (IF \E i \in ObjSeq : life'[i] # ev.life[i] THEN <<"lifecycle-state-differs">> ELSE <<>>) \o
  (IF \E i \in ObjSeq : (rng'[i] = NONE) # (ev.rng[i] = 0) THEN <<"model-generator-presence-differs">> ELSE <<>>) \o
  \* functional dependency token -> projection class ---------------------------------------
  (IF Clash(sg, g', ev.g) THEN <<"global-generator-differs">> ELSE <<>>) \o
  (IF \E i \in ObjSeq : rng'[i] # NONE /\ Clash(sg, rng'[i], ev.rng[i]) THEN <<"model-generator-differs">> ELSE <<>>) \o
  (IF \E i \in 1..Len(pp) : Clash(seenPar, pp[i][1], pp[i][2]) THEN <<"model-behaviour-differs">> ELSE <<>>) \o
  (IF \E i, j \in 1..Len(pp) : pp[i][1] = pp[j][1] /\ pp[i][2] # pp[j][2] THEN <<"equal-models-behave-differently">> ELSE <<>>) \o
  (IF \E i, j \in 1..Len(gp) : gp[i][1] = gp[j][1] /\ gp[i][2] # gp[j][2] THEN <<"equal-generators-differ">> ELSE <<>>) \o
  (IF ~okErr /\ ev.err = "" /\ ev.out # 0 /\ Clash(so, out', ev.out) THEN <<"result-differs">> ELSE <<>>) \o
  \* distinctness the properties demand -----------------------------------------------------
  (IF \E i \in ObjSeq : rng'[i] # NONE /\ rng[i] # NONE /\ rng'[i] # rng[i] /\ Len(rng'[i]) > Len(rng[i])
                         /\ rng[i] \in DOMAIN sg /\ sg[rng[i]] = ev.rng[i]
      THEN <<"model-stream-not-advanced">> ELSE <<>>) \o
  (IF g' # g /\ Len(g') > Len(g) /\ g \in DOMAIN sg /\ sg[g] = ev.g THEN <<"global-stream-not-advanced">> ELSE <<>>)

TStep ==
  /\ l <= NLines
  /\ SessionAction(Ev)
  /\ LET f == Fails(Ev)
         fresh == Ev.e = "Reset"
     IN /\ verdict' = verdict \o [i \in 1..Len(f) |-> <<l, f[i]>>]
        /\ seenG'   = PutAll(IF fresh THEN <<>> ELSE seenG, GenPairs(Ev))
        /\ seenPar' = PutNew(seenPar, ParPairs(Ev))     \* the first (reference) binding of a behaviour token is kept
        /\ seenOut' = IF out'[1] # "error" /\ Ev.err = "" /\ Ev.out # 0
                      THEN Put(IF fresh THEN <<>> ELSE seenOut, out', Ev.out)
                      ELSE (IF fresh THEN <<>> ELSE seenOut)
  /\ l' = l + 1

TSpec == TInit /\ [][TStep]_tvars

Done == l = NLines + 1
Report == Done => PrintT(<<"VERDICT", verdict>>)
Consumed == TLCGet("stats").diameter = NLines + 1
=============================================================================
