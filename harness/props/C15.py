"""C15  Sampling is reproducible per model seed and never perturbs the global RNG."""
import hashlib
import json
import os
from multiprocessing import Pool

import numpy as np

from .. import bindings as B
from .. import project as P
from .. import replay_session as R
from .. import session_jobs as SJ
from .. import tlc as T

LEVEL = 'model_checking'
CFG = os.path.join(T.SPEC, 'cfg')

CLAUSES = {
    'global-generator-differs', 'model-generator-differs', 'equal-generators-differ',
    'model-stream-not-advanced', 'global-stream-not-advanced', 'model-generator-presence-differs',
    'dataset-row-count',
}
EVENT_CLAUSES = {   # clauses that belong to C15 only on these events
    'result-differs': ('Sample', 'Dataset', 'GlobalDraw'),
    'unexpected-exception': ('Sample(seeded,fitted)', 'Sample(unseeded,fitted)', 'Dataset', 'SetSeed', 'GlobalDraw'),
    'expected-error-but-call-returned': ('SampleRaises',),
}


C15_EVENTS = ('Sample', 'SetSeed', 'GlobalSeed', 'GlobalDraw', 'Dataset', 'Reset')

ECHO_SOURCES = ('lifecycle-state-differs', 'expected-error-but-call-returned', 'unexpected-exception')


def relevant(clause, shape):
    # C15 speaks about sampling calls, seeding and the dataset generators; what a fit does to the
    # generators is C19's business (history independence) and is reported there.
    if not shape.startswith(C15_EVENTS):
        return False
    if clause in CLAUSES:
        return True
    pre = EVENT_CLAUSES.get(clause, ())
    return any(shape.startswith(p) for p in pre)


ALPHA = ["Sample", "SampleRaises", "SetSeed", "GlobalSeed", "GlobalDraw"]
ALPHA_FIT = ALPHA + ["Fit"]


def plan_cfg(b, plan):
    """(cfg text, tlc kwargs, nobj) of one generation plan for one binding, or None."""
    if plan['kind'] == 'draw':
        if not b.draw_cfgs:
            return None
        cfg = SJ.gen_cfg(b, plan['maxlen'], ["New", "Fit", "Sample", "GlobalDraw"], init='Init', nobj=1,
                         cfgs=b.draw_cfgs, data=('A',))
        return cfg, {}, 1
    if plan.get('simulate'):
        cfg = SJ.gen_cfg(b, plan['depth'], ALPHA_FIT)
        return cfg, {'simulate': 'num=%d' % plan['simulate'], 'depth': plan['depth'] + 1}, 2
    return SJ.gen_cfg(b, plan['maxlen'], ALPHA_FIT if plan.get('fit') else ALPHA), {}, 2


# ---- RandomStateMech bound to the real copulas.utils ------------------------------------------
class _Boom(Exception):
    pass


def replay_mech(behs):
    """Drive copulas.utils.random_state / set_random_state along RandomStateMech behaviours and
    compare the global and per-model generator with the specification's tokens after every step."""
    from copulas.utils import random_state, set_random_state, validate_random_state

    class Model(object):
        def __init__(self, seed):
            self.random_state = validate_random_state(seed)

        def set_random_state(self, rs):
            self.random_state = validate_random_state(rs)

        @random_state
        def call(self, body):
            return body()

    problems = []
    nsteps = 0
    for bi, h in enumerate(behs):
        first = h[0]
        np.random.seed(0)
        tok2fp = {}
        # initial M is not in the first record's pre-state; recover seeds from the tokens (<<"S", o>>)
        seeded = set()
        for rec in h:
            for i, m in enumerate(rec['M'], 1):
                if m:
                    seeded.add(i)
        models = {i: Model(i if i in seeded else None) for i in range(1, len(first['M']) + 1)}

        def observe(rec, pos):
            for tok, fp in [(rec['G'], P.fp_global())] + [
                    (m, P.fp_model_rng(models[i])) for i, m in enumerate(rec['M'], 1)]:
                key = json.dumps(tok)
                if tok == []:
                    if fp is not None:
                        problems.append((bi, pos, 'unseeded model acquired a generator'))
                    continue
                if fp is None:
                    problems.append((bi, pos, 'seeded model lost its generator'))
                    continue
                if tok2fp.setdefault(key, fp) != fp:
                    problems.append((bi, pos, 'generator state differs from specification at %s' % rec['ev']['e']))
                    tok2fp[key] = fp

        def run(pos):
            """execute the events of one body starting at pos; returns the position after its Exit"""
            nonlocal nsteps
            while pos < len(h):
                rec = h[pos]
                e = rec['ev']['e']
                nsteps += 1
                if e in ('Draw', 'UserDraw'):
                    np.random.random_sample()
                    observe(rec, pos)
                    pos += 1
                elif e in ('Enter', 'EnterScratch'):
                    box = {}

                    def body(p=pos, r=rec):
                        observe(r, p)
                        box['pos'] = run(p + 1)
                    try:
                        if e == 'Enter':
                            models[rec['ev']['o']].call(body)
                        else:
                            with set_random_state(validate_random_state(int(rec['ev']['s'])), lambda st: None):
                                body()
                    except _Boom:
                        # the real scope has just run its clean-up; the specification's next step is
                        # the ExitRaising of this scope
                        q = unwind[0]
                        if q >= len(h) or h[q]['ev']['e'] != 'ExitRaising':
                            raise AssertionError('behaviour and execution out of step')
                        observe(h[q], q)
                        unwind[0] = q + 1
                        raise
                    pos = box['pos']
                    observe(h[pos - 1], pos - 1)
                elif e == 'Raise':
                    observe(rec, pos)
                    unwind[0] = pos + 1
                    raise _Boom()
                elif e == 'Exit':
                    return pos + 1
                else:
                    raise KeyError(e)
            return pos

        unwind = [0]
        pos = 0
        while pos < len(h):
            try:
                pos = run(pos)
            except _Boom:
                pos = unwind[0]
    return problems, nsteps


def start_recorded_tests(wd):
    """the repository's own end-to-end tests under harness/recorder.py (code -> spec on executions this framework did not design)"""
    import subprocess
    import sys
    import copulas
    src = os.path.dirname(os.path.dirname(os.path.abspath(copulas.__file__)))
    d = os.path.join(wd, 'rec')
    os.makedirs(d)
    os.symlink(os.path.join(src, 'copulas'), os.path.join(d, 'copulas'))
    for name in ('tests', 'data', 'pyproject.toml'):
        if os.path.exists(os.path.join('/repo', name)):
            os.symlink(os.path.join('/repo', name), os.path.join(d, name))
    trace = os.path.join(wd, 'recorded.json')
    env = dict(os.environ, COPULAS_VERIF='1', COPULAS_VERIF_TRACE=trace, PYTHONPATH=d + os.pathsep + T.VERIF)
    proc = subprocess.Popen([sys.executable, '-m', 'pytest', '-q', '-x', '-p', 'no:cacheprovider', '-p', 'harness.recorder',
                             'tests/end-to-end/univariate', 'tests/end-to-end/bivariate', 'tests/end-to-end/multivariate'],
                            cwd=d, env=env, stdout=subprocess.DEVNULL, stderr=subprocess.DEVNULL)
    return proc, trace


def finish_recorded_tests(ctx, proc, trace):
    try:
        proc.wait(timeout=900)
    except Exception:
        proc.kill()
    if not os.path.exists(trace):
        ctx.extra['recorded_repo_tests'] = 'not available (pytest run produced no trace)'
        return
    with open(trace) as f:
        log = json.load(f)
    ctx.extra['recorded_sample_calls_in_repo_tests'] = len(log)
    ctx.extra['recorded_seeded_sample_calls'] = sum(1 for e in log if e['seeded'])
    if not log:
        return
    r = T.run('RngTrace', 'SPECIFICATION Spec\nINVARIANT TraceChecked\nCHECK_DEADLOCK FALSE\n', workers=1, env={'TRACE_FILE': trace}, timeout=300)
    ctx.note_tlc('RngTrace', r)
    v = r.tagged('VERDICT')
    if not v:
        raise T.TlcError('RngTrace: no verdict')
    ctx.traces += 1
    for line, clauses in v[0][0]:
        e = log[line - 1]
        for cl in clauses:
            ctx.violation('C15|recorded:%s|%s|%s' % (e['cls'], cl, 'raised' if e['err'] else 'returned'),
                          '%s during the repository test %s (%s.sample %s)' % (cl, e['test'], e['cls'], 'raised ' + e['err'] if e['err'] else 'returned'), e)


def run(ctx):
    quick = ctx.tier == 'quick'
    recwd = T.workdir()
    recproc, rectrace = start_recorded_tests(recwd)
    ctx.rule = ('TLC enumerates every behaviour of Session (C15 alphabet: Sample, SampleRaises, SetSeed, GlobalSeed, '
                'GlobalDraw, Fit; 2 objects, all seeded/unseeded and fitted/unfitted set-ups) up to the tier bound, '
                'plus simulated longer ones; each is executed on real objects of every sampler class; seed forms: an int, a RandomState object of its own per model, one RandomState object shared by all models that ask for the same seed; a case is one '
                '(class binding, seed form, behaviour) triple; non-trivial = the behaviour contains at least one '
                'sampling call on a fitted model; distinct by content')
    ctx.assumptions = ['generator states are compared through their full MT19937 state (key, position, gauss cache)',
                       'set-up objects are deep copies of once-fitted templates',
                       'bundled dataset generators are exercised with sizes 1, 2 and 50',
                       'the repository end-to-end tests are run under the out-of-tree recorder; only the global-isolation / stream clauses of Sample are judged on them']
    b0 = B.by_name('GaussianUnivariate')
    # 1. design-level model checking of the RNG discipline
    mc = open(os.path.join(CFG, 'Session.c15.mc.cfg')).read()
    if quick:
        mc = mc.replace('MaxLen = 4', 'MaxLen = 3')
    r = ctx.tlc('Session.c15.mc', 'Session', mc, coverage=True, timeout=600)
    ctx.extra['design_action_coverage'] = SJ.require_coverage(r, ['Sample', 'SampleRaises', 'SetSeed', 'GlobalSeed', 'GlobalDraw', 'Fit'])
    dev = ctx.tlc('Session.c15.dev', 'Session', mc.replace('DevSeedIgnored = FALSE', 'DevSeedIgnored = TRUE')
                  .replace('MaxLen = 4', 'MaxLen = 3'), must_hold=False, timeout=600)
    if not ({'GlobalIsolation', 'SeededSampleKeepsGlobal'} & set(dev.violated)):
        raise RuntimeError('non-vacuity: deviation DevSeedIgnored not refuted by TLC: %s' % dev.violated)
    r = ctx.tlc('RandomStateMech.mc', 'RandomStateMech', os.path.join(CFG, 'RandomStateMech.mc.cfg'), timeout=600, coverage=True)
    ctx.extra['mechanism_action_coverage'] = SJ.require_coverage(r, ['Enter', 'EnterScratch', 'Draw', 'Raise', 'Exit', 'UserDraw'])
    nf = ctx.tlc('RandomStateMech.nofinally', 'RandomStateMech', os.path.join(CFG, 'RandomStateMech.nofinally.cfg'),
                 must_hold=False, timeout=600)
    if not nf.violated:
        raise RuntimeError('non-vacuity: RandomStateMech without finally not refuted')
    # 1b. the isolation property as an inductive invariant (Apalache, spec/apalache/RngScopes.tla): no bound on draws and calls
    from .. import apalache as AP
    ind = AP.inductive('RngScopes')
    ctx.extra['apalache_inductive_isolation'] = ind
    vals = list(ind.values())
    if not any(v.startswith('unavailable') for v in vals):
        if vals[:3] != ['NoError'] * 3:
            raise RuntimeError('RngScopes: the inductive argument for Isolation fails on the unchanged specification: %s' % ind)
        if vals[3] != 'Error':
            raise RuntimeError('RngScopes: non-vacuity - the step without the finally block is not refuted: %s' % ind)
    # 2. mechanism bound to copulas.utils
    r = T.run('RandomStateMech', os.path.join(CFG, 'RandomStateMech.gen.cfg'), workers=1,
              simulate='num=%d' % (300 if quick else 3000), depth=40, seed=ctx.seed + 1, timeout=600)
    mb = {}
    for x in r.tagged('BEH'):
        mb[json.dumps(x[0], sort_keys=True)] = x[0]
    mbehs = list(mb.values())
    problems, nsteps = replay_mech(mbehs)
    ctx.traces += len(mbehs)
    ctx.evaluations += len(mbehs)
    ctx.extra['mechanism_behaviours'] = len(mbehs)
    ctx.extra['mechanism_steps'] = nsteps
    for bi, pos, what in problems[:50]:
        ev = mbehs[bi][pos]['ev']
        ctx.violation('C15|utils.random_state|%s|%s' % (what, ev['e']), what,
                      {'kind': 'mech', 'behaviour': mbehs[bi], 'position': pos})
    # 3. Session behaviours on every sampler class
    plans = [{'kind': 'main', 'maxlen': 3 if quick else 4, 'fit': not quick},
             {'kind': 'main', 'maxlen': 3, 'simulate': 100 if quick else 400, 'depth': 6 if quick else 8},
             {'kind': 'draw', 'maxlen': 4 if quick else 5}]
    binds = B.all_bindings()
    plans_rs = [{'kind': 'main', 'maxlen': 2 if quick else 3}, {'kind': 'draw', 'maxlen': 4}]
    want = []
    for b in binds:
        for form, pl in (('int', plans), ('rs', plans_rs), ('shared', plans_rs)):
            pcs = [pc for pc in (plan_cfg(b, plan) for plan in pl) if pc is not None]
            want.append((b.name, {'seedform': form}, pcs))
    SJ.run_session_jobs(ctx, 'C15', want, 'harness.props.C15', ('Sample',),
                        extra_jobs=[('__datasets__', 'int', None)], extra_fn=('harness.props.C15', '_datasets'))
    try:
        finish_recorded_tests(ctx, recproc, rectrace)
    finally:
        import shutil
        shutil.rmtree(recwd, ignore_errors=True)
    ctx.exhaustive = False


class DatasetBinding(B.Binding):
    name = 'datasets'
    kind = 'datasets'
    valid = ()
    methods = ('pdf',)


def _datasets(job):
    from copulas import datasets as D
    fn = {'age_income': D.sample_bivariate_age_income, 'xyz': D.sample_trivariate_xyz,
          'bernoulli': D.sample_univariate_bernoulli, 'bimodal': D.sample_univariate_bimodal,
          'uniform': D.sample_univariate_uniform, 'normal': D.sample_univariate_normal,
          'degenerate': D.sample_univariate_degenerate, 'exponential': D.sample_univariate_exponential,
          'beta': D.sample_univariate_beta, 'univariates': D.sample_univariates}
    b = DatasetBinding()
    cfg = ('INIT Init\nNEXT Next\n' + R.session_constants(b, 1, ["Dataset", "GlobalDraw", "GlobalSeed"], 2, data=[],
                                                          seeds=(1, 2), sizes=(1, 2, 50), cfgs=['c1'], arts=()) +
           'INVARIANT Emit\nCHECK_DEADLOCK FALSE\n')
    behs, r = R.gen_behaviours(cfg)
    rp = R.Replayer(b, 'int', 1)
    out = {'name': 'datasets', 'viol': [], 'behaviours': len(behs), 'calls': 0, 'lines': 0, 'states': r.distinct,
           'generated': r.generated, 'sample': {'binding': 'datasets', 'behaviour': behs[len(behs) // 3]}}
    try:
        for bi, h in enumerate(behs):
            rp.objs, rp.arts, rp.cheap = {}, {}, {}
            np.random.seed(0)
            rp._emit({'e': 'Reset', 'su': []}, (bi, 0, 'Reset'))
            for ei, ev in enumerate(h, 1):
                rec = dict(ev)
                err, outid = '', 0
                shape = ev['e']
                try:
                    if ev['e'] == 'Dataset':
                        shape = 'Dataset(%s)' % ev['nm']
                        v = fn[ev['nm']](ev['n'], B.Binding.REAL_SEED[ev['s']])       # seed token 1 is the falsy seed 0
                        rec['rows'] = int(len(v))
                        outid = rp.classes.exact_id('ds', P.digest(P.canon(v)))
                    elif ev['e'] == 'GlobalSeed':
                        np.random.seed(int(ev['s']))
                    elif ev['e'] == 'GlobalDraw':
                        np.random.random_sample(3)
                        np.random.normal()          # leaves a cached Gaussian behind: part of the generator state a caller can observe
                except Exception as ex:
                    err = type(ex).__name__
                    rec['rows'] = -1
                rp.calls += 1
                rp._emit(rec, (bi, ei, shape), out=outid, err=err)
        verdict, tr = rp.validate({})
        out['calls'] = rp.calls
        out['lines'] = len(rp.log)
        out['cases'] = ['datasets|' + json.dumps(h, sort_keys=True) for h in behs if any(e['e'] == 'Dataset' for e in h)]
        for line, clause in verdict:
            bi, ei, shape = rp.where[line - 1]
            if relevant(clause, shape):
                out['viol'].append({'clause': clause, 'shape': shape, 'behaviour': behs[bi], 'event_index': ei,
                                    'logged': rp.log[line - 1], 'seedform': 'int', 'binding': 'datasets'})
    finally:
        rp.close()
    return out


def replay(body):
    return SJ.replay(body)
