-------------------------------- MODULE PlotBags --------------------------------
(***************************************************************************)
(* C20, second half: the 2-D and 3-D scatter / compare figures contain every *)
(* given row exactly once under the correct Real / Synthetic label for the    *)
(* requested columns.                                                         *)
(*                                                                            *)
(* Generation mode: a tiny state machine builds plot requests - kind, number  *)
(* of table columns (the plotted ones plus optional extra ones), how the      *)
(* columns are requested (omitted, given in table order, given in reversed    *)
(* order), and small integer tables with repeated rows.  Check mode: for a    *)
(* log of [case, observed figure content] records TLC recomputes the expected *)
(* bag of <<label, coordinates>> and compares it with the observed bag.       *)
(***************************************************************************)
EXTENDS Integers, Sequences, FiniteSets, TLC, Json, IOUtils, TLCExt

CONSTANTS Vals, MaxRows

Kinds == {"scatter_2d", "scatter_3d", "compare_2d", "compare_3d"}
Dim(k) == IF k \in {"scatter_2d", "compare_2d"} THEN 2 ELSE 3
IsCompare(k) == k \in {"compare_2d", "compare_3d"}
ColModes == {"omitted", "given", "reversed"}

VARIABLES kind, ncols, colmode, real, synth
vars == <<kind, ncols, colmode, real, synth>>

Rows(n) == [1..n -> Vals]

Init ==
  /\ kind \in Kinds
  /\ ncols \in {Dim(kind), Dim(kind) + 1}
  /\ colmode \in ColModes
  /\ real = <<>> /\ synth = <<>>

AddReal == /\ Len(real) < MaxRows /\ synth = <<>>
           /\ \E r \in Rows(ncols) : real' = Append(real, r)
           /\ UNCHANGED <<kind, ncols, colmode, synth>>
AddSynth == /\ IsCompare(kind) /\ real # <<>> /\ Len(synth) < MaxRows
            /\ \E r \in Rows(ncols) : synth' = Append(synth, r)
            /\ UNCHANGED <<kind, ncols, colmode, real>>
Next == AddReal \/ AddSynth
Spec == Init /\ [][Next]_vars

Complete == real # <<>> /\ (IsCompare(kind) => synth # <<>>)
Emit == Complete => PrintT(<<"CASE", [kind |-> kind, ncols |-> ncols, colmode |-> colmode, real |-> real, synth |-> synth]>>)

(* ---- what the figure must contain ------------------------------------------------------------ *)
\* indices (1-based) of the table columns that are plotted, in axis order
Axes(c) == LET d == Dim(c.kind) IN
           IF c.colmode = "reversed" THEN [i \in 1..d |-> d + 1 - i] ELSE [i \in 1..d |-> i]
\* with the columns omitted the table must have exactly the plotted number of columns
MustRaise(c) == c.colmode = "omitted" /\ c.ncols # Dim(c.kind)

Points(c, rows, label) == [i \in 1..Len(rows) |-> <<label>> \o [a \in 1..Dim(c.kind) |-> rows[i][Axes(c)[a]]]]
Expected(c) == Points(c, c.real, "Real") \o (IF IsCompare(c.kind) THEN Points(c, c.synth, "Synthetic") ELSE <<>>)

Range(s) == {s[i] : i \in DOMAIN s}
BagOf(s) == [x \in Range(s) |-> Cardinality({i \in DOMAIN s : s[i] = x})]

(* ---- check mode ------------------------------------------------------------------------------ *)
PLog == JsonDeserialize(IOEnv.TRACE_FILE)
Problems(r) ==
  IF MustRaise(r.case) THEN (IF r.err = "ValueError" THEN <<>> ELSE <<"expected-ValueError">>)
  ELSE IF r.err # "" THEN <<"plot-raised">>
  ELSE (IF BagOf(r.obs) # BagOf(Expected(r.case)) THEN <<"figure-content-differs">> ELSE <<>>) \o
       (IF Len(r.obs) # Len(Expected(r.case)) THEN <<"row-count-differs">> ELSE <<>>)
TraceChecked == PrintT(<<"VERDICT", SelectSeq([i \in 1..Len(PLog) |-> <<i, Problems(PLog[i])>>], LAMBDA p : p[2] # <<>>)>>)
=============================================================================
