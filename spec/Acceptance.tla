-------------------------------- MODULE Acceptance --------------------------------
(***************************************************************************)
(* Acceptance laws for the clauses of the properties that are statements      *)
(* about distributions or recovery rates.  The harness designs the experiment *)
(* (cells enumerated in the property modules), reduces each outcome to        *)
(* integers, and this module evaluates the acceptance inequality:             *)
(*    count : k successes out of n trials must reach pct percent              *)
(*    band  : |obs - exp| <= band       (fixed point, micro-units)            *)
(*    le    : a <= b                    (fixed point, micro-units)            *)
(* The probability that a correct implementation is rejected is bounded on    *)
(* paper (DESIGN.md section 7); TLC evaluates the inequalities and names the  *)
(* failing records.                                                           *)
(***************************************************************************)
EXTENDS Integers, Sequences, TLC, Json, IOUtils, TLCExt
ALog == JsonDeserialize(IOEnv.TRACE_FILE)
Abs(a) == IF a < 0 THEN -a ELSE a
Fails(r) ==
  CASE r.kind = "count" -> r.k * 100 < r.pct * r.n
    [] r.kind = "band"  -> Abs(r.obs - r.exp) > r.band
    [] r.kind = "le"    -> r.a > r.b
    [] OTHER -> TRUE
VARIABLE dummy
Init == dummy = 0
Next == FALSE /\ dummy' = dummy
Spec == Init /\ [][Next]_dummy
TraceChecked == PrintT(<<"VERDICT", SelectSeq([i \in 1..Len(ALog) |-> i], LAMBDA i : Fails(ALog[i]))>>)
=============================================================================
