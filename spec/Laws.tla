---------------------------------- MODULE Laws ----------------------------------
(***************************************************************************)
(* Vocabulary of order / algebraic laws over fixed-point tables (integers).   *)
(* The law modules of the numeric properties (CopulaLaws, DerivLaws,          *)
(* InverseLaws, DistLaws, CorrLaws, DensityLaws) are stated with these        *)
(* operators; LatticeLemmas model-checks that the local forms used here       *)
(* imply the globally quantified forms the properties state.                  *)
(* A value NAN stands for a non-finite implementation output.                 *)
(***************************************************************************)
EXTENDS Integers, Sequences, FiniteSets, TLC

NAN == -2000000000
Abs(a) == IF a < 0 THEN -a ELSE a
MinI(a, b) == IF a < b THEN a ELSE b
MaxI(a, b) == IF a > b THEN a ELSE b

Finite(xs) == \A i \in DOMAIN xs : xs[i] # NAN
Finite2(m) == \A i \in DOMAIN m : Finite(m[i])
InRange(xs, lo, hi) == \A i \in DOMAIN xs : xs[i] >= lo /\ xs[i] <= hi
InRange2(m, lo, hi) == \A i \in DOMAIN m : InRange(m[i], lo, hi)
NonDecreasing(xs, slack) == \A i \in 1..(Len(xs) - 1) : xs[i + 1] >= xs[i] - slack
NonIncreasing(xs, slack) == \A i \in 1..(Len(xs) - 1) : xs[i + 1] <= xs[i] + slack
Close(a, b, atol, rtolppm) == IF a = NAN \/ b = NAN THEN a = b
                              ELSE Abs(a - b) <= atol + (MaxI(Abs(a), Abs(b)) \div 1000000) * rtolppm
CloseSeq(xs, ys, atol, rtolppm) == Len(xs) = Len(ys) /\ \A i \in DOMAIN xs : Close(xs[i], ys[i], atol, rtolppm)
Column(m, j) == [i \in DOMAIN m |-> m[i][j]]

(* ---- copula lattice laws on an N x N table C over grid G (both scaled by S) ------------------- *)
Grounded(C, slack) == \A i \in DOMAIN C : Abs(C[i][1]) <= slack /\ Abs(C[1][i]) <= slack
Margins(C, G, slack) == LET n == Len(G) IN \A i \in 1..n : Abs(C[i][n] - G[i]) <= slack /\ Abs(C[n][i] - G[i]) <= slack
TwoIncreasing(C, slack) == LET n == Len(C) IN
  \A i \in 1..(n - 1) : \A j \in 1..(n - 1) : C[i + 1][j + 1] - C[i + 1][j] - C[i][j + 1] + C[i][j] >= -slack
Frechet(C, G, S, slack) == LET n == Len(G) IN
  \A i \in 1..n : \A j \in 1..n : C[i][j] <= MinI(G[i], G[j]) + slack /\ C[i][j] >= MaxI(G[i] + G[j] - S, 0) - slack
Symmetric(C, atol, rtolppm) == \A i \in DOMAIN C : \A j \in DOMAIN C : Close(C[i][j], C[j][i], atol, rtolppm)
PointwiseLeq(C1, C2, slack) == \A i \in DOMAIN C1 : \A j \in DOMAIN C1[i] : C1[i][j] <= C2[i][j] + slack

(* ---- integral form of a derivative relation: |I6 - dF| <= 4 |I6 - I3| + atol + rtol |dF| ------------ *)
\* a cell whose integrand is not finite at a node (an integrable singularity at a support end) carries no information
Quadrature(i6, i3, df, atol, rtolppm) == (i6 = NAN \/ i3 = NAN \/ df = NAN) \/
                                         Abs(i6 - df) <= 4 * Abs(i6 - i3) + atol + (Abs(df) \div 1000000) * rtolppm
QuadratureSeq(I6, I3, DF, atol, rtolppm) == \A i \in DOMAIN I6 : Quadrature(I6[i], I3[i], DF[i], atol, rtolppm)
=============================================================================
