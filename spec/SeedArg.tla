------------------------------------------------------- MODULE SeedArg -------------------------------------------------------
(* The `random_state` argument of every model (copulas.utils.validate_random_state, reached through the constructors and through *)
(* set_random_state of the univariate / bivariate / multivariate bases).  The field of an object is written by one statement,    *)
(* `self.random_state = validate_random_state(arg)`: the validation runs BEFORE the assignment, so a refused argument leaves the *)
(* field as it was.  Values of the field: <<"none", "-">> (the model draws from the global generator), <<"seeded", n>> (a generator the   *)
(* model owns, freshly seeded with n at the moment of the call), <<"shared", g>> (the caller's generator object itself).         *)
EXTENDS Integers, Sequences, FiniteSets, TLC

CONSTANTS MaxLen, Objects

\* argument classes; bool is a subclass of int in Python (True seeds with 1); NumPy integers are not instances of int
Args == {"none", "int0", "int7", "true", "npint", "float", "str", "tuple", "generator", "negative", "toobig", "rsA", "rsB"}

Outcome(a) == CASE a = "none"      -> <<"ok", <<"none", "-">>>>
                [] a = "int0"      -> <<"ok", <<"seeded", "0">>>>
                [] a = "int7"      -> <<"ok", <<"seeded", "7">>>>
                [] a = "true"      -> <<"ok", <<"seeded", "1">>>>
                [] a = "rsA"       -> <<"ok", <<"shared", "A">>>>
                [] a = "rsB"       -> <<"ok", <<"shared", "B">>>>
                [] a \in {"npint", "float", "str", "tuple", "generator"} -> <<"TypeError", <<"-", "-">>>>
                [] a \in {"negative", "toobig"} -> <<"ValueError", <<"-", "-">>>>      \* raised by numpy.random.RandomState(seed=...)

VARIABLES field, built, hist
vars == <<field, built, hist>>

Init == field = [o \in Objects |-> <<"unbuilt", "-">>] /\ built = {} /\ hist = <<>>

\* constructor: a refused argument means there is no object
Construct(o, a) == /\ o \notin built
                   /\ LET r == Outcome(a) IN
                        /\ IF r[1] = "ok" THEN field' = [field EXCEPT ![o] = r[2]] /\ built' = built \cup {o}
                           ELSE UNCHANGED <<field, built>>
                        /\ hist' = Append(hist, [e |-> "Construct", o |-> o, a |-> a, out |-> r[1],
                                                 after |-> IF r[1] = "ok" THEN r[2] ELSE <<"unbuilt", "-">>])

SetState(o, a) == /\ o \in built
                  /\ LET r == Outcome(a) IN
                       /\ field' = IF r[1] = "ok" THEN [field EXCEPT ![o] = r[2]] ELSE field
                       /\ UNCHANGED built
                       /\ hist' = Append(hist, [e |-> "Set", o |-> o, a |-> a, out |-> r[1],
                                                after |-> IF r[1] = "ok" THEN r[2] ELSE field[o]])

Next == /\ Len(hist) < MaxLen
        /\ \E o \in Objects, a \in Args : Construct(o, a) \/ SetState(o, a)
Spec == Init /\ [][Next]_vars

RefusalKeepsField == [][\A o \in Objects : (hist' # hist /\ hist'[Len(hist')].out # "ok") => field'[o] = field[o]]_vars
OnlyTheAddressedObject == [][\A o \in Objects : (hist' # hist /\ hist'[Len(hist')].o # o) => field'[o] = field[o]]_vars
\* two objects share a generator only if the caller handed the same generator object to both
SharingIsExplicit == \A o, p \in built : (o # p /\ field[o] = field[p] /\ field[o][1] # "none") =>
                        (field[o][1] = "shared" \/ field[o][1] = "seeded")      \* equal seeds are equal values, not one object: see the replay (distinct generator objects)
NeverNumpyInt == \A o \in built : field[o] \in {<<"none", "-">>} \cup {<<"seeded", n>> : n \in {"0", "1", "7"}} \cup {<<"shared", g>> : g \in {"A", "B"}}

Emit == Len(hist) = MaxLen => PrintT(<<"BEH", hist>>)
==============================================================================================================================
