--------------------------------- MODULE GaussLaws ---------------------------------
(***************************************************************************)
(* C02 and C13: laws of a fitted Gaussian copula, on fixed-point observations *)
(* (scaled by S).                                                             *)
(*                                                                            *)
(* kind = "corr" (C02): the learned correlation matrix R with                  *)
(*    Rref   the harness's independent computation (public marginal CDFs,      *)
(*           clip, normal scores, Pearson), const[i] whether column i of the   *)
(*           training table is constant, mineig (scaled) the smallest          *)
(*           eigenvalue, labelsOK, usable (sampling and density still work)    *)
(* kind = "density" (C13): values of probability_density / log_pdf / cdf for   *)
(*    the same rows in several representations (rep[r] = sequence of values),  *)
(*    the harness's own MVN density at the normal scores (ref), log values,    *)
(*    and CDF values along coordinate-wise increasing chains.                  *)
(***************************************************************************)
EXTENDS Laws, Json, IOUtils, TLCExt
Obs == JsonDeserialize(IOEnv.TRACE_FILE)
VARIABLE k
Init == k = 1
Next == k < Len(Obs) /\ k' = k + 1
Spec == Init /\ [][Next]_k

RIDGE == 30            \* 3e-7: the regularisation ridge of order 1e-7 on the diagonal (scaled by S = 1e8)

Corr(o) ==
  LET n == Len(o.R) IN
  (IF o.err # "" THEN <<o.err>> ELSE <<>>) \o
  (IF ~Finite2(o.R) THEN <<"correlation-not-finite">> ELSE
     (IF ~Symmetric(o.R, 0, 0) THEN <<"correlation-not-symmetric">> ELSE <<>>) \o
     (IF ~InRange2(o.R, -o.S - RIDGE, o.S + RIDGE) THEN <<"correlation-entry-outside-[-1,1]">> ELSE <<>>) \o
     (IF \E i \in 1..n : ~o.const[i] /\ Abs(o.R[i][i] - o.S) > RIDGE THEN <<"diagonal-is-not-1">> ELSE <<>>) \o
     (IF \E i, j \in 1..n : i # j /\ (o.const[i] \/ o.const[j]) /\ o.R[i][j] # 0 THEN <<"constant-column-correlated">> ELSE <<>>) \o
     (IF \E i, j \in 1..n : i # j /\ ~o.const[i] /\ ~o.const[j] /\ Abs(o.R[i][j] - o.Rref[i][j]) > RIDGE THEN <<"entry-is-not-the-normal-score-correlation">> ELSE <<>>)) \o
  (IF o.mineig < -RIDGE THEN <<"not-positive-semi-definite">> ELSE <<>>) \o
  (IF ~o.labelsOK THEN <<"labels-are-not-the-training-columns-in-order">> ELSE <<>>) \o
  (IF ~o.usable THEN <<"sampling-or-density-broken-after-fit">> ELSE <<>>)

Density(o) ==
  (IF o.err # "" THEN <<o.err>> ELSE <<>>) \o
  (IF \E r \in DOMAIN o.rep : ~CloseSeq(o.rep[r], o.rep[1], 2, 1) THEN <<"density-depends-on-representation-or-batch">> ELSE <<>>) \o
  (IF Len(o.rep) > 0 /\ ~CloseSeq(o.rep[1], o.ref, 2, 10) THEN <<"density-is-not-the-normal-score-mvn-density">> ELSE <<>>) \o
  (IF ~CloseSeq(o.logp, o.logref, 20, 2) THEN <<"log_pdf-is-not-log-of-pdf">> ELSE <<>>) \o
  (IF \E c \in DOMAIN o.chains : ~Finite(o.chains[c]) \/ ~InRange(o.chains[c], -o.ctol, o.S + o.ctol) THEN <<"cdf-outside-unit-interval">> ELSE <<>>) \o
  (IF \E c \in DOMAIN o.chains : Finite(o.chains[c]) /\ ~NonDecreasing(o.chains[c], o.ctol) THEN <<"cdf-decreases-along-a-coordinate">> ELSE <<>>) \o
  (IF \E r \in DOMAIN o.crep : ~CloseSeq(o.crep[r], o.crep[1], o.ctol, 0) THEN <<"cdf-depends-on-representation-or-batch">> ELSE <<>>) \o
  (IF Len(o.crep) > 0 /\ o.cref # <<>> /\ ~CloseSeq(o.crep[1], o.cref, 3 * o.ctol, 0) THEN <<"cdf-is-not-the-normal-score-mvn-cdf">> ELSE <<>>)

Problems(o) == IF o.kind = "corr" THEN Corr(o) ELSE Density(o)
TraceChecked == k = 1 => PrintT(<<"VERDICT", SelectSeq([i \in 1..Len(Obs) |-> <<i, Problems(Obs[i])>>], LAMBDA p : p[2] # <<>>)>>)
=============================================================================
