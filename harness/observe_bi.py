"""Observation of the bivariate copula kernels as fixed-point tables (shared by C06, C07, C08, C09)."""
import math
import os
import shutil
import warnings

import numpy as np

from . import tlc as T

warnings.simplefilter('ignore')
NAN = -2000000000
S = 100000000            # 1e8: probabilities and CDF values
FAMS = ('Clayton', 'Frank', 'Gumbel')
FAMS4 = FAMS + ('Independence',)      # the parameterless fourth family: in the checks whose property says "every family" (C07, C08)


def fx(a, scale=S, lim=2.0e9):
    """fixed point with NAN sentinel for non-finite or out-of-range values"""
    a = np.asarray(a, dtype=float)
    out = np.full(a.shape, NAN, dtype=np.int64)
    with np.errstate(all='ignore'):
        v = np.rint(a * scale)
    ok = np.isfinite(v) & (np.abs(v) < lim - 1)
    out[ok] = v[ok].astype(np.int64)
    return out


def tau_of(fam, theta):
    if fam == 'Independence':
        return 0.0
    if fam == 'Clayton':
        return theta / (theta + 2.0)
    if fam == 'Gumbel':
        return 1.0 - 1.0 / theta
    from .props.C10 import frank_tau
    return frank_tau(theta)


_SIBLINGS = []


def make(fam, theta, as_int=False):
    """a copula of the family with the given parameter.  Every second parameter value (a fixed function of the value) is carried by
    an instance with a past: it held another parameter and answered every kind of query with it before it was given this one -
    the laws speak of the parameter the object has now"""
    import copulas.bivariate as cb
    if fam == 'Independence':
        # no parameter; fitted (a no-op) on independent uniforms.  The class is imported from its module: the package does not
        # export it, and Bivariate(copula_type='independence') returns None unless that module was imported before the first
        # dispatch (the list of subclasses is cached) - an observation outside the listed properties (DESIGN section 15)
        from copulas.bivariate.independence import Independence
        m = Independence()
        m.fit(np.random.RandomState(5).uniform(size=(40, 2)))
        return m
    m = getattr(cb, fam)()
    if int(abs(float(theta)) * 104729) % 3 == 0:
        # a third of the objects have a sibling: another live object of the same family that was given its (different) parameter at
        # about the same time and answered queries just before - what one object computed is no business of the other
        sib = getattr(cb, fam)()
        other = {'Clayton': 1.7, 'Gumbel': 2.2, 'Frank': 5.0 if theta > 0 else -3.0}[fam]
        m.theta, sib.theta = float(theta), other
        m.tau, sib.tau = float(tau_of(fam, theta)), float(tau_of(fam, other))
        pts = np.array([[0.3, 0.6], [0.8, 0.1], [0.5, 0.5]])
        try:
            for f in (sib.cumulative_distribution, sib.probability_density, sib.partial_derivative):
                f(pts.copy())
            sib.percent_point(np.array([0.4, 0.7]), np.array([0.2, 0.9]))
        except Exception:
            pass
        _SIBLINGS.append(sib)
        del _SIBLINGS[:-4]
        return m
    if int(abs(float(theta)) * 7919) % 2:
        other = {'Clayton': 2.5, 'Gumbel': 3.0, 'Frank': -4.0 if theta > 0 else 6.0}[fam]
        if int(abs(float(theta)) * 1299709) % 2:
            # ... and before that it was fitted to data (concordant columns: admissible for every family)
            try:
                m.fit(np.column_stack([np.linspace(0.1, 0.9, 9), np.array([0.15, 0.1, 0.3, 0.45, 0.4, 0.6, 0.8, 0.7, 0.95])]))
            except Exception:
                pass
        m.theta = other
        m.tau = float(tau_of(fam, other))
        pts = np.array([[0.3, 0.6], [0.8, 0.1], [0.5, 0.5]])
        st = np.random.get_state()
        try:
            for f in (m.cumulative_distribution, m.probability_density, m.partial_derivative, m.log_probability_density):
                f(pts.copy())
            m.percent_point(np.array([0.4, 0.7]), np.array([0.2, 0.9]))
            m.sample(3)
        except Exception:
            pass
        finally:
            np.random.set_state(st)
    m.theta = float(theta)
    if as_int:      # a whole-number parameter may arrive as a Python or NumPy integer (assigned by hand, read from JSON)
        m.theta = int(theta) if int(theta) % 2 else np.int64(int(theta))
    m.tau = float(tau_of(fam, theta))
    return m


def chain(fam, n):
    """increasing thetas across the property's range: |Kendall tau| <= 0.8, both ends included"""
    if fam == 'Independence':
        return [0.0]
    if fam == 'Clayton':
        return list(np.geomspace(1e-3, 8.0, n))
    if fam == 'Gumbel':
        return [1.0] + list(1.0 + np.geomspace(1e-3, 4.0, n - 1))
    h = n // 2
    pos = list(np.geomspace(1e-2, 18.2, h))
    return [-t for t in reversed(pos)] + pos


GRID31 = np.array([0.0, 1e-12, 1e-9, 1e-6, 1e-4, 1e-3, 0.01, 0.03, 0.07, 0.12, 0.2, 0.28, 0.36, 0.44, 0.5, 0.56, 0.64, 0.72,
                   0.8, 0.88, 0.93, 0.97, 0.99, 0.999, 1 - 1e-4, 1 - 1e-6, 1 - 1e-9, 1 - 1e-12, 1.0])


def grid(n_extra=0):
    g = GRID31
    if n_extra:
        g = np.unique(np.concatenate([g, np.linspace(0.02, 0.98, n_extra)]))
    return g


def mesh(gu, gv=None):
    gv = gu if gv is None else gv
    U, V = np.meshgrid(gu, gv, indexing='ij')
    return np.column_stack([U.ravel(), V.ravel()])


def edge_grid(n, lo=1e-4):
    """n points of [lo, 1-lo], geometric towards both ends"""
    h = n // 2
    left = np.geomspace(lo, 0.5, h + 1)
    return np.unique(np.concatenate([left, 1 - left]))


class Safe(object):
    """an observation function that reports an exception of the observed code as an observation (the library raising where the
    property promises a value is a violation, not a failure of the machinery)"""

    def __init__(self, fn):
        self.fn = fn

    def __call__(self, job):
        try:
            return self.fn(job)
        except Exception as ex:
            import traceback
            return {'__raised__': type(ex).__name__, 'trace': traceback.format_exc(limit=-3)[-500:]}


def split_raised(ctx, pid, results, jobs, rerun):
    """report the observations that raised as violations; return the remaining (observations, jobs)"""
    obs, kept = [], []
    for r, job in zip(results, jobs):
        if isinstance(r, dict) and '__raised__' in r:
            fam, theta = job[0], float(job[2])
            ctx.case('%s|%.6g' % (fam, theta))
            ctx.violation('%s|%s|raised-%s|%s' % (pid, fam, r['__raised__'], theta_bucket(fam, theta)),
                          '%s at theta=%.6g: the library raised %s: %s' % (fam, theta, r['__raised__'], r['trace'][-300:]),
                          {'fam': fam, 'theta': theta, 'rerun': [rerun, list(job)]})
        else:
            obs.append(r)
            kept.append(job)
    return obs, kept


def run_laws(ctx, name, module, records, timeout=1500):
    """write the observation list, evaluate the module's TraceChecked, return [(index0, [law, ...])]"""
    wd = T.workdir()
    try:
        tf = os.path.join(wd, 'obs.json')
        T.dump_json(tf, records)
        r = T.run(module, 'SPECIFICATION Spec\nINVARIANT TraceChecked\nCHECK_DEADLOCK FALSE\n', workers=1,
                  env={'TRACE_FILE': tf}, timeout=timeout)
        ctx.note_tlc(name, r)
        v = r.tagged('VERDICT')
        if not v:
            raise T.TlcError('%s: no verdict\n%s' % (module, r.raw[-2500:]))
        return [(int(i) - 1, list(laws)) for i, laws in v[0][0]]
    finally:
        shutil.rmtree(wd, ignore_errors=True)


def theta_bucket(fam, theta):
    if fam == 'Gumbel' and theta == 1.0:
        return 'theta=1'
    t = abs(tau_of(fam, theta))
    b = 'tau<0.2' if t < 0.2 else 'tau<0.5' if t < 0.5 else 'tau<=0.8'
    return ('neg,' if theta < 0 else '') + b
