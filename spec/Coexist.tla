-------------------------------- MODULE Coexist --------------------------------
(***************************************************************************)
(* Several model objects of DIFFERENT classes alive in one process.           *)
(*                                                                           *)
(* Session.tla binds one class per run: its objects are all of that class.   *)
(* The classes of Copulas share state below the object, though - the family  *)
(* classes share the Bivariate base class (and its class attributes), the    *)
(* scipy-backed marginals share ScipyModel and Univariate, the wrapper and   *)
(* the Gaussian copula share candidate / prototype objects the caller handed *)
(* in, every model shares the modules it lives in - and C19 says that the    *)
(* state of a model after fit(X) depends on its constructor arguments and X  *)
(* ONLY.  This module is the design of that sentence for a process that      *)
(* holds two objects of classes chosen freely from one family of classes:    *)
(*                                                                           *)
(*   par[o]  the observable behaviour of object o, a free term               *)
(*           <<class, data>> (or "unfitted"), written by Fit(o, d) alone;    *)
(*   Query / Sample return a term over par[o] alone;                         *)
(*   Share(o) - only when Shared = TRUE - makes the prototype / candidate     *)
(*           objects of o the very objects handed to the other model before  *)
(*           (the caller reuses its list): no term changes.                  *)
(*                                                                           *)
(* TLC checks non-interference on the design (NoInterference, OwnFitOnly)    *)
(* and emits every behaviour up to the bound (and simulated longer ones);    *)
(* harness/coexist.py executes each on real objects and requires that equal  *)
(* terms have equal projections, across ALL behaviours of a class family:    *)
(* the answer of a Frank copula fitted to d1 is the same whether a Gumbel    *)
(* copula was fitted, asked or sampled before, in between or never.          *)
(* BrokenShared = TRUE is the design of a memo on the base class (the second  *)
(* object of a pair that holds equal data answers with the first object's     *)
(* term): TLC must refute NoInterference on it (non-vacuity).                 *)
(***************************************************************************)
EXTENDS Integers, Sequences, FiniteSets, TLC

CONSTANTS Classes, Data, MaxLen, Shared, BrokenShared

Obj == {1, 2}
VARIABLES cls, par, shared, out, hist
vars == <<cls, par, shared, out, hist>>

Unfitted == <<"unfitted">>

Init == /\ cls \in [Obj -> Classes]
        /\ par = [o \in Obj |-> Unfitted]
        /\ shared = FALSE
        /\ out = <<"-">>
        /\ hist = <<>>

Log(e, o, d, res) == hist' = Append(hist, [e |-> e, o |-> o, d |-> d, out |-> res])

Fit(o, d) ==
  /\ par' = [par EXCEPT ![o] = <<cls[o], d>>]
  /\ out' = <<"fitted">>
  /\ Log("Fit", o, d, out')
  /\ UNCHANGED <<cls, shared>>

Other(o) == 3 - o
\* what a query of o answers: a term over its own parameters - unless the design is the broken one
Answer(o) ==
  IF BrokenShared /\ par[Other(o)] # Unfitted /\ par[o] # Unfitted /\ par[Other(o)][2] = par[o][2] /\ o = 2
  THEN par[Other(o)] ELSE par[o]

Query(o) ==
  /\ par[o] # Unfitted
  /\ out' = <<"q", Answer(o)>>
  /\ Log("Query", o, "-", out')
  /\ UNCHANGED <<cls, par, shared>>

Sample(o) ==
  /\ par[o] # Unfitted
  /\ out' = <<"s", Answer(o)>>
  /\ Log("Sample", o, "-", out')
  /\ UNCHANGED <<cls, par, shared>>

\* the caller hands the prototype / candidate objects of one model to the other (a list it keeps); allowed once, before any fit
Share ==
  /\ Shared /\ ~shared /\ \A o \in Obj : par[o] = Unfitted
  /\ shared' = TRUE
  /\ out' = <<"shared">>
  /\ Log("Share", 0, "-", out')
  /\ UNCHANGED <<cls, par>>

Next == /\ Len(hist) < MaxLen
        /\ \/ \E o \in Obj, d \in Data : Fit(o, d)
           \/ \E o \in Obj : Query(o) \/ Sample(o)
           \/ Share
Spec == Init /\ [][Next]_vars

(* ---- properties ---------------------------------------------------------------------------- *)
\* the last fit of object o in a history
LastFit(o, h) ==
  LET idx == {i \in DOMAIN h : h[i].e = "Fit" /\ h[i].o = o} IN
  IF idx = {} THEN "-" ELSE h[CHOOSE i \in idx : \A j \in idx : j <= i].d

\* an answer of object o is a term over o's class and o's last training data - nothing else of the history
NoInterference ==
  hist # <<>> /\ hist[Len(hist)].e \in {"Query", "Sample"} =>
     LET o == hist[Len(hist)].o IN out[2] = <<cls[o], LastFit(o, hist)>>
\* only a fit of o changes what o is
OwnFitOnly == [][\A o \in Obj : par'[o] # par[o] => (hist'[Len(hist')].e = "Fit" /\ hist'[Len(hist')].o = o)]_vars

Emit == Len(hist) = MaxLen => PrintT(<<"BEH", cls, hist>>)
=============================================================================
