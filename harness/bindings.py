"""Bindings of the specification's abstract classes / data sets / option sets to the real library.

A Binding tells the replayer how to perform each Session action on real objects of one class and
how to project the result.  Data sets are generated from private RandomState objects so that the
global generator is never touched by the harness itself.
"""
import copy
import io
import json
import os
import tempfile
import warnings

import numpy as np
import pandas as pd

from . import project as P

warnings.simplefilter('ignore')


def poison(shapes, value):
    """Deterministic allocator poison: make the next np.empty of these shapes return `value`."""
    for _ in range(2):
        junk = [np.full(s, value, dtype=float) for s in shapes for _ in range(3)]
        del junk


def _exc(f, *a, **k):
    try:
        return f(*a, **k)
    except Exception as e:        # the exception class is the observable
        return ('exc', type(e).__name__)


class Binding(object):
    name = None
    kind = None                 # 'uni' | 'bi' | 'gauss' | 'vine'
    cfgs = ('c1',)
    draw_cfgs = ()
    rejects = False
    query_draws = False
    unfitted_dict_ok = False
    methods = ('pdf', 'cdf', 'ppf')
    valid = ('A', 'B')
    const = ()
    invalid = ()
    json_ok = True
    file_carries_state = True   # save/load keeps configuration and generator (pickle)
    generic_from_dict = None

    # -- construction -------------------------------------------------------------------------
    def kwargs(self, cfg):
        return {}

    def cls(self):
        raise NotImplementedError

    # specification seed ids -> real seeds; id 1 is the falsy seed 0 on purpose (a model seeded with 0 is seeded)
    REAL_SEED = {1: 0, 2: 7, 3: 12345}

    def seed_arg(self, seed, form):
        if not seed:
            return None
        real = self.REAL_SEED.get(int(seed), int(seed))
        if form == 'int':
            return real
        if form == 'shared':        # one RandomState object per seed, handed to every model that asks for that seed
            if not hasattr(self, '_shared_rs'):
                self._shared_rs = {}
            return self._shared_rs.setdefault(real, np.random.RandomState(real))
        return np.random.RandomState(real)

    newform = 'ctor'            # 'ctor' | 'class' | 'name' | 'mixed': how New builds the object (get_instance forms; positional + keyword arguments)

    def _make(self, kw):
        from copulas.utils import get_instance, get_qualified_name
        if self.newform == 'class':
            return get_instance(self.cls(), **kw)
        if self.newform == 'name':
            return get_instance(get_qualified_name(self.cls()), **kw)
        if self.newform == 'mixed':
            # the leading constructor parameters positionally (up to the first one the configuration sets), the rest by keyword
            import inspect
            cls = self.cls()
            ps = [p for p in list(inspect.signature(cls.__init__).parameters.values())[1:] if p.kind == p.POSITIONAL_OR_KEYWORD]
            names = [p.name for p in ps]
            set_ = [n for n in names if n in kw and n != 'random_state']
            if set_:
                upto = names.index(set_[0])
                kw = dict(kw)
                pos = [kw.pop(p.name) if p.name in kw else p.default for p in ps[:upto + 1]]
                return cls(*pos, **kw)
        return self.cls()(**kw)

    def new(self, cfg, seed, form='int'):
        kw = dict(self.kwargs(cfg))
        kw['random_state'] = self.seed_arg(seed, form)
        return self._make(kw)

    def set_seed(self, m, seed, form='int'):
        m.set_random_state(self.seed_arg(seed, form))

    def get_instance(self, m):
        from copulas.utils import get_instance
        return get_instance(m)

    # -- state --------------------------------------------------------------------------------
    def life(self, m):
        return 'fitted' if getattr(m, 'fitted', False) else 'unfitted'

    def data(self, d):
        raise NotImplementedError

    def fit(self, m, d):
        m.fit(self.data(d))

    def query(self, m, method):
        raise NotImplementedError

    def unfitted_variants(self, m, method):
        """further argument compositions for a query of an unfitted model (thunks): every one of them must raise"""
        return ()

    def query_any(self, m, method):
        """the query of the replayer.  A fitted model is asked once.  An unfitted model is asked with several argument compositions
        (interior values, boundary values only, a single element): if any of them answers, that answer is the result of the step (so the
        trace shows a returned call where an error was due); if all raise, the first exception is the result"""
        if self.life(m) == 'fitted':
            return self.query(m, method)
        first = None
        for thunk in (lambda: self.query(m, method),) + tuple(self.unfitted_variants(m, method)):
            try:
                return thunk()
            except Exception as ex:
                first = first or ex
        raise first

    def sample(self, m, n):
        return m.sample(n)

    def sample_raises(self, m):
        return m.sample('not-a-number')

    def to_dict(self, m):
        return m.to_dict()

    def from_dict(self, d, via):
        if via == 'generic' and self.generic_from_dict is not None:
            return self.generic_from_dict()(d)
        return self.cls().from_dict(d)

    def save(self, m, path):
        m.save(path)

    def load(self, path):
        return self.cls().load(path)

    # -- projections --------------------------------------------------------------------------
    def cheap(self, m):
        return P.canon(_exc(self.to_dict, m))

    def probe_sample(self, m, n=5):
        c = copy.deepcopy(m)
        st = np.random.get_state()
        try:
            # two consecutive calls under a fresh seed (the stream, not just its first batch), and the first batch once more after re-seeding
            c.set_random_state(np.random.RandomState(987))
            first = _exc(self.sample, c, n)
            second = _exc(self.sample, c, n - 1)
            c.set_random_state(np.random.RandomState(987))
            again = _exc(self.sample, c, n)
            return (first, second, again)
        finally:
            np.random.set_state(st)

    def obs(self, m):
        """Observable behaviour of a model: class, to_dict, every public query on a probe set,
        and the sample stream of a re-seeded deep copy."""
        st = np.random.get_state()
        try:
            q = tuple((meth, P.canon(_exc(self.query, m, meth))) for meth in self.obs_methods())
        finally:
            np.random.set_state(st)
        ps = P.canon(self.probe_sample(m))
        if getattr(self, 'exact_probe', False):
            # round trips promise identical, not merely close, sample streams: the digest is part of the observation
            return ('obs', self.family(m), self.cheap(m), q, ps, P.digest(ps))
        return ('obs', self.family(m), self.cheap(m), q, ps)

    def obs_methods(self):
        return self.methods

    def family(self, m):
        return type(m).__name__


# =================================================================================================
# univariate
# =================================================================================================
_U = {}


def uni_data(d):
    if d not in _U:
        if d == 'A':
            _U[d] = np.random.RandomState(11).gamma(2.0, 2.0, 60) + 1.0
        elif d == 'B':
            _U[d] = np.random.RandomState(12).normal(50.0, 5.0, 35)
        elif d == 'K1':
            _U[d] = np.full(20, 3.5)
        elif d == 'K2':
            _U[d] = np.full(12, -1.0)
        elif d == 'K0':
            _U[d] = np.zeros(15)                     # a falsy constant
        elif d == 'C':
            _U[d] = np.random.RandomState(13).beta(0.5, 0.5, 60) * 3.0 + 1.0      # Beta wins the selection
        elif d == 'P':
            _U[d] = np.array([1.0] * 21 + [0.0] * 29)     # scipy's beta.fit raises on this column
        elif d == 'T':
            _U[d] = 5000.0 + 0.005 * np.random.RandomState(14).normal(size=40)      # spread 1e-6 of the magnitude, yet not constant
        elif d == 'E':
            _U[d] = np.array([0.3, 0.1 + 0.2] * 9 + [0.3])        # two distinct values one unit in the last place apart: not constant
        elif d == 'N':
            _U[d] = 3.0e-9 + 4.0e-10 * np.random.RandomState(15).normal(size=45)      # quantities of the order 1e-9 (lengths in metres): not constant either
        else:
            raise KeyError(d)
    return _U[d].copy()


UNI_X = np.concatenate([np.linspace(-30.0, 120.0, 31), [3.5, -1.0, 3.5 + 1e-9, -1.0 - 1e-9, 0.0, 1e-9, -1e-9, 1.0, 2.5],
                        5000.0 + np.array([-0.02, -0.004, 0.0, 0.003, 0.011]), 1e-9 * np.array([2.2, 2.7, 3.0, 3.2, 3.9]), [0.3, 0.1 + 0.2, 0.30000000000000002, 0.29999999999999993]])
UNI_Q = np.array([0.0, 1e-9, 0.001, 0.05, 0.25, 0.5, 0.75, 0.95, 0.999, 1 - 1e-9, 1.0])       # the end points and their neighbourhood belong to [0, 1]


class UniBinding(Binding):
    kind = 'uni'
    valid = ('A', 'B', 'K1', 'K2', 'K0')
    const = ('K1', 'K2', 'K0')
    methods = ('pdf', 'cdf', 'ppf', 'logpdf')
    json_ok = True

    def fit(self, m, d):
        X = self.data(d)
        m.fit(X)
        try:                       # the caller goes on using its array: the model is that of the data it was fitted to
            X[:] = X[::-1] * 0.25 - 9.0
        except Exception:
            pass

    def __init__(self, clsname, cfgs=None, draw=(), more_data=()):
        self.clsname = clsname
        self.name = clsname
        self.valid = tuple(self.valid) + tuple(more_data)
        self._cfgs = cfgs or {'c1': {}}
        self.cfgs = tuple(sorted(self._cfgs))
        self.draw_cfgs = tuple(draw)

    def cls(self):
        import copulas.univariate as u
        return getattr(u, self.clsname)

    def generic_from_dict(self):
        from copulas.univariate import Univariate
        return Univariate.from_dict

    def kwargs(self, cfg):
        kw = self._cfgs[cfg]
        return kw() if callable(kw) else dict(kw)

    def data(self, d):
        return uni_data(d)

    def query(self, m, method):
        if method == 'pdf':
            return m.probability_density(UNI_X.copy())
        if method == 'cdf':
            return m.cumulative_distribution(UNI_X.copy())
        if method == 'ppf':
            return m.percent_point(UNI_Q.copy())
        if method == 'logpdf':
            return m.log_probability_density(UNI_X.copy())
        raise KeyError(method)

    def unfitted_variants(self, m, method):
        if method == 'ppf':
            return tuple((lambda q=q: m.percent_point(np.array(q))) for q in ([0.0, 1.0], [0.0], [1.0], [0.5]))
        f = {'pdf': m.probability_density, 'cdf': m.cumulative_distribution, 'logpdf': m.log_probability_density}[method]
        return tuple((lambda x=x: f(np.array(x))) for x in ([1e300], [-1e300, 3.5], [0.0]))

    def family(self, m):
        inst = getattr(m, '_instance', None)
        return type(inst).__name__ if inst is not None and type(m).__name__ == 'Univariate' else type(m).__name__

    def sample_raises(self, m):
        return m.sample('not-a-number')


def _sel_cfgs():
    def c1():
        from copulas.univariate import GaussianUnivariate, GammaUnivariate, UniformUnivariate
        return {'candidates': [GaussianUnivariate, GammaUnivariate, UniformUnivariate]}

    def c2():
        from copulas.univariate import BoundedType
        return {'bounded': BoundedType.BOUNDED}

    def c3():
        from copulas.univariate import GaussianUnivariate, GammaUnivariate, UniformUnivariate
        return {'candidates': [GaussianUnivariate, GammaUnivariate, UniformUnivariate], 'selection_sample_size': 20}
    return {'c1': c1, 'c2': c2, 'c3': c3}


class SelectingBinding(UniBinding):
    """The selecting Univariate wrapper: serialises as the family it selected."""

    # 'C': a table on which Beta wins; 'P': a table on which one candidate (Beta) cannot be fitted
    valid = ('A', 'B', 'C', 'P', 'K1', 'K0')
    const = ('K1', 'K0')

    def __init__(self):
        UniBinding.__init__(self, 'Univariate', _sel_cfgs(), draw=('c3',))


# =================================================================================================
# bivariate
# =================================================================================================
_B = {}


def bi_data(d):
    if d not in _B:
        if d == 'A':
            rs = np.random.RandomState(21)
            z = rs.normal(size=(40, 2))
            z[:, 1] = 0.8 * z[:, 0] + 0.6 * z[:, 1]
        elif d == 'B':
            rs = np.random.RandomState(22)
            z = rs.normal(size=(25, 2))
            z[:, 1] = 0.7 * z[:, 0] + 0.7 * z[:, 1]
        elif d == 'M':                      # perfectly concordant: Kendall tau = 1 (Clayton theta = inf, an edge parameter)
            rs = np.random.RandomState(23)
            z = rs.normal(size=(40, 1)).repeat(2, axis=1)           # 40 rows: SciPy's tau-b is exactly 1.0 (for 12 rows it is 1 - 2e-16)
        else:
            raise KeyError(d)
        n = len(z)
        r = np.column_stack([np.argsort(np.argsort(z[:, j])) + 1.0 for j in range(2)]) / (n + 1.0)
        _B[d] = r
    return _B[d].copy()


_g = np.array([0.05, 0.3, 0.5, 0.7, 0.95])
BI_X = np.array([[a, b] for a in _g for b in _g])
BI_Y = np.array([0.1, 0.5, 0.9, 0.3])
BI_V = np.array([0.2, 0.6, 0.8, 0.4])


class BiBinding(Binding):
    kind = 'bi'
    unfitted_dict_ok = True
    methods = ('pdf', 'cdf', 'ppf')
    file_carries_state = False

    def __init__(self, clsname):
        self.clsname = clsname
        self.name = clsname
        if clsname == 'Clayton':
            self.valid = ('A', 'B', 'M')

    def cls(self):
        import copulas.bivariate as b
        return getattr(b, self.clsname)

    def generic_from_dict(self):
        from copulas.bivariate import Bivariate
        return Bivariate.from_dict

    def life(self, m):
        return 'fitted' if m.theta is not None else 'unfitted'

    # the documented (and only working) deserialisation entry points of the bivariate family are the
    # base-class ones; Clayton.from_dict / Clayton.load are not part of what C14 demands
    def from_dict(self, d, via):
        from copulas.bivariate import Bivariate
        return Bivariate.from_dict(d)

    def load(self, path):
        from copulas.bivariate import Bivariate
        return Bivariate.load(path)

    def data(self, d):
        return bi_data(d)

    def get_instance(self, m):
        from copulas.utils import get_instance
        return get_instance(m)

    def query(self, m, method):
        if method == 'pdf':
            return m.probability_density(BI_X.copy())
        if method == 'cdf':
            return m.cumulative_distribution(BI_X.copy())
        if method == 'ppf':
            return m.percent_point(BI_Y.copy(), BI_V.copy())
        if method == 'pd':
            return m.partial_derivative(BI_X.copy())
        raise KeyError(method)

    def unfitted_variants(self, m, method):
        if method == 'ppf':
            return tuple((lambda y=y, v=v: m.percent_point(np.array(y), np.array(v))) for y, v in (([0.0], [0.0]), ([1.0], [1.0]), ([0.5], [1.0])))
        f = {'pdf': m.probability_density, 'cdf': m.cumulative_distribution, 'pd': m.partial_derivative}[method]
        return tuple((lambda x=x: f(np.array(x))) for x in ([[0.0, 0.0]], [[1.0, 1.0], [0.0, 0.3]], [[0.5, 0.5]]))

    def obs_methods(self):
        return ('pdf', 'cdf', 'ppf', 'pd')

    def sample_raises(self, m):
        return m.sample('not-a-number')


# =================================================================================================
# multivariate
# =================================================================================================
_M = {}


def mv_data(d, ncol):
    key = (d, ncol)
    if key not in _M:
        cols = list('abcdef')[:ncol]
        if d in ('A', 'B', 'K1', 'K2'):
            rs = np.random.RandomState({'A': 31, 'B': 32, 'K1': 33, 'K2': 34}[d] + ncol)
            n = {'A': 50, 'B': 30, 'K1': 40, 'K2': 36}[d]
            z = rs.normal(size=(n, ncol))
            for j in range(1, ncol):
                z[:, j] = 0.6 * z[:, j - 1] + 0.8 * z[:, j]
            if d == 'B':
                z = z * 3.0 + 10.0
            df = pd.DataFrame(z, columns=cols)
            df[cols[0]] = np.exp(df[cols[0]] / (3.0 if d == 'B' else 1.0))
            if d == 'K1':
                df[cols[-1]] = 4.25
            if d == 'K2':                   # the first column is the constant one
                df[cols[0]] = 3.0
        elif d == 'NAN':
            df = mv_data('A', ncol).copy()
            df.iloc[3, 1] = np.nan
        elif d == 'NAN32':                  # a missing value in a single-precision table is a missing value
            df = mv_data('A', ncol).copy().astype('float32')
            df.iloc[5, ncol - 1] = np.nan
        elif d == 'EMPTY':
            df = mv_data('A', ncol).iloc[0:0].copy()
        elif d == 'TEXT':
            df = mv_data('A', ncol).copy().astype(object)
            df.iloc[2, 0] = 'x'
        elif d == 'NUMTEXT':                # text that happens to parse as numbers is text
            df = mv_data('A', ncol).copy()
            df[cols[1]] = df[cols[1]].map(lambda v: '%.3f' % v)
        elif d == 'BOOL':                   # homogeneous non-numeric data with a non-object dtype
            df = mv_data('A', ncol) > 0.5
        elif d == 'DATE':
            df = mv_data('A', ncol).apply(lambda c: pd.to_datetime((c * 1e9).astype('int64')))
        else:
            raise KeyError(d)
        _M[key] = df
    return _M[key].copy()


def mv_probe(ncol):
    rs = np.random.RandomState(77)
    z = rs.normal(size=(6, ncol)) * 1.5
    df = pd.DataFrame(z, columns=list('abcdef')[:ncol])
    df['a'] = np.exp(df['a'] / 2.0)
    return df


class GaussBinding(Binding):
    kind = 'gauss'
    rejects = True
    valid = ('A', 'B', 'K1', 'K2')
    invalid = ('NAN', 'NAN32', 'EMPTY', 'TEXT', 'NUMTEXT', 'BOOL', 'DATE')
    cfgs = ('c1', 'c2')

    def __init__(self, ncol, conditional=False):
        self.ncol = ncol
        self.conditional = conditional
        self.name = 'GaussianMultivariate%d%s' % (ncol, 'cond' if conditional else '')
        self.query_draws = ncol >= 3
        self.methods = ('pdf', 'cdf', 'logpdf')

    def cls(self):
        from copulas.multivariate import GaussianMultivariate
        return GaussianMultivariate

    def generic_from_dict(self):
        from copulas.multivariate import Multivariate
        return Multivariate.from_dict

    def kwargs(self, cfg):
        from copulas.univariate import GaussianKDE, GaussianUnivariate, UniformUnivariate
        if cfg == 'c1':
            return {'distribution': GaussianUnivariate}
        return {'distribution': {'a': 'copulas.univariate.gamma.GammaUnivariate', 'b': GaussianKDE,
                                 'c': UniformUnivariate(), 'd': GaussianUnivariate, 'e': GaussianUnivariate,
                                 'f': GaussianUnivariate}}

    def data(self, d):
        return mv_data(d, self.ncol)

    def query(self, m, method):
        X = mv_probe(self.ncol)
        if method == 'pdf':
            return m.probability_density(X)
        if method == 'cdf':
            return m.cumulative_distribution(X)
        if method == 'logpdf':
            return m.log_probability_density(X)
        raise KeyError(method)

    def unfitted_variants(self, m, method):
        X = mv_probe(self.ncol)
        f = {'pdf': m.probability_density, 'cdf': m.cumulative_distribution, 'logpdf': m.log_probability_density}[method]
        return (lambda: f(X.iloc[:1]), lambda: f(X.to_numpy()), lambda: f(X.iloc[0]))

    def obs_methods(self):
        return ('pdf', 'logpdf') if self.query_draws else ('pdf', 'logpdf', 'cdf')

    def sample(self, m, n):
        if self.conditional:
            return m.sample(n, conditions={'b': 0.25})
        return m.sample(n)

    def sample_raises(self, m):
        return m.sample(3, conditions={'no-such-column': 1.0})


class VineBinding(Binding):
    kind = 'vine'
    rejects = True
    unfitted_dict_ok = True
    valid = ('A', 'B')
    invalid = ('NAN', 'NAN32', 'EMPTY', 'TEXT', 'NUMTEXT', 'BOOL', 'DATE')
    methods = ('pdf',)
    json_ok = False

    def __init__(self, vtype, ncol=4):
        self.vtype = vtype
        self.ncol = ncol
        self.name = 'VineCopula_%s%d' % (vtype, ncol)

    def cls(self):
        from copulas.multivariate import VineCopula
        return VineCopula

    def generic_from_dict(self):
        from copulas.multivariate import Multivariate
        return Multivariate.from_dict

    poison_cycle = (0.0,)

    def new(self, cfg, seed, form='int'):
        return self._make({'vine_type': self.vtype, 'random_state': self.seed_arg(seed, form)})

    def data(self, d):
        return mv_data(d, self.ncol)

    _npoison = 0

    def _poison(self):
        k = self.ncol
        v = self.poison_cycle[self._npoison % len(self.poison_cycle)]
        self._npoison += 1
        poison([(j, j) for j in range(1, k + 1)] + [(1, j) for j in range(1, k + 1)], v)

    def fit(self, m, d):
        self._poison()
        m.fit(self.data(d))

    def query(self, m, method):
        self._poison()
        u = np.array([[0.3, 0.55, 0.4, 0.7, 0.35, 0.6][:self.ncol]])
        return m.get_likelihood(u)

    def from_dict(self, d, via):
        return Binding.from_dict(self, d, via)

    def sample_raises(self, m):
        return m.sample('not-a-number')


def all_bindings():
    tg = {'c1': {}, 'c2': {'minimum': -5.0, 'maximum': 150.0}}
    kde = {'c1': {}, 'c2': {'bw_method': 'silverman'}, 'c3': {'sample_size': 25}}
    out = [
        UniBinding('GaussianUnivariate', more_data=('T', 'N', 'E')), UniBinding('UniformUnivariate', more_data=('T', 'N', 'E')), UniBinding('BetaUnivariate'),
        UniBinding('GammaUnivariate'), UniBinding('LogLaplace'), UniBinding('StudentTUnivariate'),
        UniBinding('TruncatedGaussian', tg), UniBinding('GaussianKDE', kde, draw=('c3',), more_data=('T', 'N')),
        SelectingBinding(),
        BiBinding('Clayton'), BiBinding('Frank'), BiBinding('Gumbel'),
        GaussBinding(2), GaussBinding(3), GaussBinding(3, conditional=True),
        VineBinding('center'), VineBinding('direct'), VineBinding('regular'),
    ]
    return out


def by_name(name):
    for b in all_bindings():
        if b.name == name:
            return b
    raise KeyError(name)
