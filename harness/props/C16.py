"""C16  A fitted vine is a regular vine of the requested type and depth."""
import json
import os
import traceback
from multiprocessing import Pool

import numpy as np

from .. import tlc as T
from .. import vine_tools as V

LEVEL = 'model_checking'

MC_CFG = '''SPECIFICATION Spec
CONSTANTS
  N = %d
  VType = "%s"
  Trunc = %d
INVARIANT ClosedTreesOK
INVARIANT FinalDepthOK
INVARIANT NoCandidateNeverEnabled
INVARIANT ConstraintIsProximity
INVARIANT ChildWellDefined
%s
CHECK_DEADLOCK FALSE
'''


def _tables():
    """fixed pool of u-matrices used when the builders are driven with forced tau matrices"""
    rs = np.random.RandomState(101)
    return {n: V.u_matrix_of(V.random_table(rs, n, 'factor', nrow=40)) for n in range(2, 8)}


_U = None


def _drive(job):
    global _U
    vtype, n, trunc, spec_trees, seed = job
    if _U is None:
        _U = _tables()
    rs = np.random.RandomState(seed)
    rec = {'n': n, 'vtype': vtype, 'trunc': trunc, 'trees': [], 'w': [], 'admissible': [], 'err': '', 'src': 'driven'}
    try:
        with V.time_limit(60):          # a builder that does not come back is reported, it does not hang the check
            trees, w1 = V.forced_build(vtype, spec_trees, _U[n], rs)
        rec['trees'], rec['admissible'] = V.structure(trees)
        if vtype == 'regular':
            rec['w'] = V.rank_matrix(w1)
    except Exception as ex:
        rec['err'] = type(ex).__name__ + ':' + traceback.format_exc(limit=-2)[-300:]
    return rec


def _fit(job):
    n, pattern, vtype, trunc, seed = job
    rs = np.random.RandomState(seed)
    df = V.random_table(rs, n, pattern, nrow=1100 if seed % 53 == 7 else None)      # now and then a table of more than 1000 rows
    if seed % 9 == 4 and pattern not in ('exact-monotone', 'near-tie'):
        # numeric tables come in every numeric type: small unsigned / signed integers (counts, codes, sensor readings), single precision
        lo, hi = float(df.to_numpy().min()), float(df.to_numpy().max())
        kind = ('uint8', 'uint16', 'int8', 'float32')[(seed // 9) % 4]
        if kind == 'float32':
            df = df.astype('float32')
        else:
            top = {'uint8': 250.0, 'uint16': 60000.0, 'int8': 120.0}[kind]
            off = -120.0 if kind == 'int8' else 0.0
            df = ((df - lo) / (hi - lo) * (top - off) + off).round().astype(kind)
    rec = {'n': n, 'vtype': vtype, 'trunc': trunc, 'trees': [], 'w': [], 'admissible': [], 'err': '',
           'src': 'fit:' + pattern}
    try:
        # a third of the models are instances with a past (fitted to another table, sampled, asked for a likelihood)
        m = V.fit_vine(df, vtype, trunc, past=(V.past_table(rs, n, seed) if seed % 3 == 1 else V.same_shape_past(rs, df, seed) if seed % 3 == 2 and df.dtypes.eq('float64').all() else None))
        rec['trees'], rec['admissible'] = V.structure(m.trees)
        if vtype == 'regular':
            rec['w'] = V.rank_matrix(V.kendall_abs(df))
    except Exception as ex:
        rec['err'] = type(ex).__name__ + ':' + traceback.format_exc(limit=-2)[-300:]
    return rec


def spec_vines(ctx, n, vtype, trunc, simulate=None):
    cfg = MC_CFG % (n, vtype, trunc, 'INVARIANT Emit')
    if simulate:
        r = T.run('Vine', cfg, workers=1, simulate='num=%d' % simulate, depth=100, seed=ctx.seed + n, timeout=600)
    else:
        r = T.run('Vine', cfg, workers=1, timeout=900)
    if r.violated:
        raise T.TlcError('Vine generation reports %s' % r.violated)
    ctx.note_tlc('Vine.gen N=%d %s' % (n, vtype), r)
    seen = {}
    for x in r.tagged('VINE'):
        trees = []
        for t in x[0]:
            trees.append([{'L': e['L'], 'R': e['R'], 'D': sorted(e['D']['__set__']) if isinstance(e['D'], dict) else list(e['D']),
                           'pa': list(e['pa'])} for e in t])
        seen[json.dumps(trees, sort_keys=True)] = trees
    return list(seen.values())


def run(ctx):
    quick = ctx.tier == 'quick'
    ctx.rule = ('(a) Vine.tla model-checked for N=2..5 (thorough: 6), three types, truncations 1 and N: every reachable '
                'partial and complete structure satisfies the C16 clauses; (b) every complete vine TLC emits for N<=4 '
                '(thorough: 5, sampled 6) is used to drive the real tree builders through that ordering of dependences '
                '(forced tau matrices, real pair-copula fitting); (c) real VineCopula.fit on random tables (2..7 columns, 8 '
                'dependence patterns incl. ties, negative and near-duplicate columns, truncation 1..N); every resulting '
                'structure is checked by TLC against the C16 clauses.  non-trivial = a structure with >= 2 trees or >= 3 '
                'variables; distinct by (type, n, truncation, structure, source)')
    ctx.assumptions = ['parents of an edge are identified by object identity in the previous tree',
                       'first-tree weights are |Kendall tau| computed by the harness (ties within 1e-9 share a rank)',
                       'admissible theta = the families declared intervals (Clayton >= 0, Gumbel >= 1, Frank != 0, not NaN)']
    # (a) design
    for n in ([2, 3, 4, 5] if quick else [2, 3, 4, 5, 6]):
        for vt in ('center', 'direct', 'regular'):
            for tr in sorted({1, 2, n}):
                if n == 6 and vt == 'regular':
                    # every Prim order of every regular vine on six nodes is tens of millions of states (measured: 23.6 million after
                    # 50 minutes on a loaded machine, the queue still growing): random walks instead of the full graph
                    if tr == n:
                        r = T.run('Vine', MC_CFG % (n, vt, tr, ''), workers=4, simulate='num=3000', depth=200, seed=ctx.seed + 66, timeout=1500)
                        ctx.note_tlc('Vine.simulate N=6 regular t=6', r)
                        if r.violated:
                            raise T.TlcError('Vine N=6 regular (simulation) reports %s' % r.violated)
                    continue
                ctx.tlc('Vine.mc N=%d %s t=%d' % (n, vt, tr), 'Vine', MC_CFG % (n, vt, tr, ''), timeout=4000)
    # (b) drivers
    jobs = []
    for vt in ('center', 'direct', 'regular'):
        for n in ((2, 3, 4) if quick else (2, 3, 4, 5)):
            for i, sv in enumerate(spec_vines(ctx, n, vt, n)):
                jobs.append((vt, n, n, sv, ctx.seed * 7919 + i))
        for n, num in (((5, 150),) if quick else ((6, 400), (7, 100))):
            for i, sv in enumerate(spec_vines(ctx, n, vt, n, simulate=num)):
                jobs.append((vt, n, n, sv, ctx.seed * 7919 + 100000 + i))
    # (c) real fits
    fits = []
    rs = np.random.RandomState(ctx.seed + 5)
    nt = 120 if quick else 1500
    for i in range(nt):
        n = int(rs.choice([2, 3, 4, 5, 6, 7], p=[0.1, 0.15, 0.25, 0.25, 0.15, 0.1]))
        pattern = V.PATTERNS[i % len(V.PATTERNS)]
        trunc = int(rs.choice([1, 2, 3, n - 1 if n > 2 else 1, n, n + 2]))
        for vt in ('center', 'direct', 'regular'):
            fits.append((n, pattern, vt, max(1, trunc), ctx.seed * 104729 + i))
    # tables in which one column is an increasing function of another (first trees only: the pseudo-observations of such a pair are
    # constant, and the library refuses to go deeper)
    for i, n in enumerate((2, 3, 4, 5, 6) if quick else (2, 2, 3, 3, 4, 4, 5, 5, 6, 6, 7)):
        for vt in ('center', 'direct', 'regular'):
            fits.append((n, 'exact-monotone', vt, 1, ctx.seed * 104729 + 5000 + i))
    # the same kind of table with deeper truncation: the library may refuse it (ValueError: the pseudo-observations of a monotone pair are
    # constant) - but if fit returns, the vine has every tree the property promises
    for i, n in enumerate((3, 4, 5) if quick else (3, 3, 4, 4, 5, 5, 6)):
        for vt in ('center', 'direct', 'regular'):
            fits.append((n, 'exact-monotone', vt, 2 + i % 2, ctx.seed * 104729 + 6000 + i))
    # tables of 1100 rows in which two pairs of columns differ in their Kendall tau by one pair of rows: the heavier one belongs to the first regular tree
    for i, n in enumerate((3, 4) if quick else (3, 3, 4, 4, 5)):
        fits.append((n, 'near-tie', 'regular', 1, ctx.seed * 104729 + 7000 + i))       # first trees only: two of the columns are nearly the same
    with Pool(16) as pool:
        log = pool.map(_drive, jobs, chunksize=8) + pool.map(_fit, fits, chunksize=4)
    wd = T.workdir()
    try:
        tf = os.path.join(wd, 'vines.json')
        T.dump_json(tf, [{k: v for k, v in r.items() if k != 'src'} for r in log])
        cfg = 'SPECIFICATION Spec\nCONSTANTS\n  N = 2\n  VType = "regular"\n  Trunc = 1\nINVARIANT TraceChecked\nCHECK_DEADLOCK FALSE\n'
        r = T.run('VineTrace', cfg + '', workers=1, env={'TRACE_FILE': tf}, timeout=1500)
        ctx.note_tlc('VineTrace', r)
        verdict = r.tagged('VERDICT')
        if not verdict:
            raise T.TlcError('VineTrace: no verdict\n' + r.raw[-2500:])
    finally:
        import shutil
        shutil.rmtree(wd, ignore_errors=True)
    refused = [i for i, rec in enumerate(log) if rec['src'] == 'fit:exact-monotone' and rec['trunc'] >= 2 and rec['err'].startswith('ValueError')]
    ctx.extra['functionally_dependent_tables_refused_beyond_the_first_tree'] = len(refused)
    ctx.traces += len(log)
    ctx.extra['driven_structures'] = len(jobs)
    ctx.extra['fitted_tables'] = len(fits)
    for rec in log:
        ctx.case(json.dumps([rec['vtype'], rec['n'], rec['trunc'], rec['trees'], rec['src'][:6]]),
                 nontrivial=(len(rec['trees']) >= 2 or rec['n'] >= 3))
    ctx.sample({k: log[len(jobs) // 2][k] for k in ('vtype', 'n', 'trunc', 'trees', 'src')})
    ctx.sample({k: log[-1][k] for k in ('vtype', 'n', 'trunc', 'trees', 'src')})
    for line, clauses in verdict[-1][0]:
        rec = log[line - 1]
        if (line - 1) in refused:
            continue            # a loud refusal of a functionally dependent table: the property speaks of the model after fit returned
        for cl in clauses:
            detail = ''
            if cl == 'fit-raised':
                detail = ':' + rec['err'].split(':')[0]
                if 'Unable to compute tau' in rec['err'] or 'Constant column' in rec['err']:
                    detail += '(degenerate-pseudo-observations)'    # a pseudo-observation column of a deeper tree came out constant (finding F36)
            sig = 'C16|%s|n=%d|%s%s|%s' % (rec['vtype'], rec['n'], cl, detail, rec['src'])
            ctx.violation(sig, '%s for a %s vine on %d columns (truncation %d, %s)' % (cl + detail, rec['vtype'], rec['n'], rec['trunc'], rec['src']),
                          rec)
    ctx.exhaustive = False
