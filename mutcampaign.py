#!/venv/bin/python
"""Systematic mutation campaign (binding demonstration at scale; not a property check).

  mutcampaign.py gen  OUT.jsonl [--seed S] [--cap-per-file N]     enumerate syntactic mutants of /repo/copulas (AST based, one token each)
  mutcampaign.py run  IN.jsonl RESULTS.jsonl [--jobs J] [--first K] [--tests]
                                                                   apply each mutant to a scratch copy, run the quick checks of the
                                                                   properties anchored in that file (stop at the first VIOLATION),
                                                                   optionally run the repository's test suite on the survivors
  mutcampaign.py report RESULTS.jsonl                              summary per file / operator, list of survivors

The sentinel mutants in mutants/ and the seeded changes in seeded/ were chosen by people (or sub-agents) who had an idea; this tool
has none: it applies the classical operators (relational / arithmetic / logical operator replacement, constant replacement, condition
negation, statement deletion, name swaps such as min/max, any/all, U/V) everywhere, so the survivors show where the checks do not look.
Nothing here touches /repo: every mutant lives in /tmp/mc_* and is removed after its run.
"""
import ast
import json
import os
import random
import re
import shutil
import subprocess
import sys
import tempfile
import time
from concurrent.futures import ThreadPoolExecutor

VERIF = os.path.dirname(os.path.abspath(__file__))
REPO = os.environ.get('MC_REPO', '/repo')

# which checks look at which file (most likely detector first, cheaper first among equals)
BI = ['C06', 'C07', 'C08', 'C10', 'C09', 'C11', 'C17', 'C14', 'C19', 'C20', 'C15', 'C16']
UNI = ['C03', 'C04', 'C05', 'C19', 'C14', 'C02', 'C13', 'C01', 'C20', 'C15', 'C12']
GAUSS = ['C02', 'C13', 'C12', 'C05', 'C01', 'C19', 'C14', 'C20', 'C15']
VINE = ['C17', 'C16', 'X02', 'C19', 'C14', 'C20', 'C15']
FILEMAP = {
    'copulas/__init__.py': ['X01', 'C05', 'C19', 'C15', 'C20', 'C03'],
    'copulas/utils.py': ['C19', 'C15', 'C05', 'C03', 'C06', 'C07', 'C13', 'C14', 'C20', 'C01', 'C17'],
    'copulas/datasets.py': ['C15', 'C20'],
    'copulas/visualization.py': ['C20'],
    'copulas/errors.py': ['C19'],
    'copulas/bivariate/__init__.py': ['C11', 'C17', 'C14', 'C16', 'C20', 'C19'],
    'copulas/bivariate/base.py': ['C08', 'C10', 'C09', 'C14', 'C19', 'C06', 'C07', 'C11', 'C20', 'C15', 'C17', 'C16'],
    'copulas/bivariate/clayton.py': BI,
    'copulas/bivariate/frank.py': BI,
    'copulas/bivariate/gumbel.py': BI,
    'copulas/bivariate/independence.py': ['C14', 'C19', 'C06', 'C07', 'C09', 'C20'],
    'copulas/bivariate/utils.py': ['C11', 'C17', 'C16'],
    'copulas/multivariate/__init__.py': ['C14', 'C19'],
    'copulas/multivariate/base.py': ['C14', 'C19', 'C15', 'C01', 'C16', 'C20'],
    'copulas/multivariate/gaussian.py': GAUSS,
    'copulas/multivariate/tree.py': VINE,
    'copulas/multivariate/vine.py': VINE,
    'copulas/optimize/__init__.py': ['C18', 'C20', 'C03', 'C08'],
    'copulas/univariate/__init__.py': ['C05', 'C03', 'C14'],
    'copulas/univariate/base.py': UNI,
    'copulas/univariate/selection.py': ['C05', 'C03', 'C01', 'C19'],
}
for f in ('beta', 'gamma', 'gaussian', 'gaussian_kde', 'log_laplace', 'student_t', 'truncated_gaussian', 'uniform'):
    FILEMAP['copulas/univariate/%s.py' % f] = UNI

CMP = {'<': ['<=', '>'], '<=': ['<', '>='], '>': ['>=', '<'], '>=': ['>', '<='], '==': ['!='], '!=': ['=='],
       'is': ['is not'], 'is not': ['is'], 'in': ['not in'], 'not in': ['in']}
BIN = {'+': ['-'], '-': ['+'], '*': ['/'], '/': ['*'], '**': ['*'], '//': ['/'], '%': ['//'], '@': ['*']}
NAMESWAP = {'min': 'max', 'max': 'min', 'any': 'all', 'all': 'any', 'minimum': 'maximum', 'maximum': 'minimum',
            'argmax': 'argmin', 'argmin': 'argmax', 'nanmin': 'nanmax', 'nanmax': 'nanmin', 'floor': 'ceil', 'ceil': 'floor',
            'U': 'V', 'V': 'U', 'u': 'v', 'v': 'u', 'left': 'right', 'right': 'left', 'lower': 'upper', 'upper': 'lower',
            'sum': 'mean', 'mean': 'median', 'std': 'var', 'exp': 'expm1', 'log': 'log1p', 'log1p': 'log', 'expm1': 'exp',
            'cdf': 'pdf', 'pdf': 'cdf', 'ppf': 'cdf', 'zeros': 'ones', 'ones': 'zeros', 'empty': 'zeros', 'abs': 'negative',
            'loc': 'scale', 'scale': 'loc', 'a': 'b', 'b': 'a', 'i': 'j', 'j': 'i', 'x': 'y', 'y': 'x',
            'L': 'R', 'R': 'L', 'xmin': 'xmax', 'xmax': 'xmin', 'append': 'remove', 'isnan': 'isinf', 'sqrt': 'abs',
            'copy': 'view', 'tau': 'theta', 'theta': 'tau', 'index': 'columns', 'columns': 'index'}


def seg(src_lines, node):
    return ast.get_source_segment(''.join(src_lines), node)


class Gen(ast.NodeVisitor):
    def __init__(self, path, src):
        self.path, self.src = path, src
        self.lines = src.splitlines(keepends=True)
        self.off = [0]
        for ln in self.lines:
            self.off.append(self.off[-1] + len(ln.encode()))     # ast col offsets are in bytes
        self.bsrc = src.encode()
        self.out = []
        self.func = []
        self.skip_depth = 0

    def pos(self, line, col):
        return self.off[line - 1] + col

    def span(self, n):
        return self.pos(n.lineno, n.col_offset), self.pos(n.end_lineno, n.end_col_offset)

    def add(self, op, a, b, new, node):
        old = self.bsrc[a:b].decode()
        if old == new:
            return
        self.out.append({'file': self.path, 'line': node.lineno, 'op': op, 'a': a, 'b': b, 'old': old, 'new': new,
                         'func': '.'.join(self.func)})

    def between(self, left, right, table, op, node):
        a = self.span(left)[1]
        b = self.span(right)[0]
        txt = self.bsrc[a:b].decode()
        toks = sorted(table, key=len, reverse=True)
        m = re.search('|'.join(r'(?<![\w])%s(?![\w])' % re.escape(t) if t[0].isalpha() else re.escape(t) for t in toks), txt)
        if not m:
            return
        for new in table[m.group(0)]:
            self.add(op, a + len(txt[:m.start()].encode()), a + len(txt[:m.end()].encode()), new, node)

    # --- scopes --------------------------------------------------------------------------
    def visit_FunctionDef(self, n):
        self.func.append(n.name)
        body = n.body
        if body and isinstance(body[0], ast.Expr) and isinstance(body[0].value, ast.Constant) and isinstance(body[0].value.value, str):
            body = body[1:]
        for d in n.decorator_list:
            a, b = self.span(d)
            # dropping a decorator (random_state, check_valid_values, store_args ...)
            la = self.off[d.lineno - 1]
            lb = self.off[d.end_lineno]
            self.add('decorator-del', la, lb, '', d)
        for s in body:
            self.visit(s)
        self.func.pop()

    visit_AsyncFunctionDef = visit_FunctionDef

    def visit_ClassDef(self, n):
        self.func.append(n.name)
        for s in n.body:
            if isinstance(s, ast.Expr) and isinstance(s.value, ast.Constant) and isinstance(s.value.value, str):
                continue
            self.visit(s)
        self.func.pop()

    # --- statements ----------------------------------------------------------------------
    def stmt_del(self, n):
        a, b = self.span(n)
        self.add('stmt-del', a, b, 'pass', n)

    def visit_Assign(self, n):
        self.stmt_del(n)
        self.generic_visit(n)

    def visit_AugAssign(self, n):
        self.stmt_del(n)
        a = self.span(n.target)[1]
        b = self.span(n.value)[0]
        txt = self.bsrc[a:b].decode()
        m = re.search(r'(\*\*|//|[-+*/%@&|^])=', txt)
        if m and m.group(1) in BIN:
            for new in BIN[m.group(1)]:
                self.add('augassign', a + m.start(), a + m.end(), new + '=', n)
        self.generic_visit(n)

    def visit_Expr(self, n):
        if isinstance(n.value, ast.Call):
            f = n.value.func
            name = f.attr if isinstance(f, ast.Attribute) else getattr(f, 'id', '')
            if name in ('warn', 'debug', 'info', 'warning', 'error', 'exception', 'simplefilter', 'filterwarnings'):
                return
            self.stmt_del(n)
        self.generic_visit(n)

    def visit_Raise(self, n):
        # deleting a raise = the refusal disappears
        self.stmt_del(n)

    def visit_Assert(self, n):
        self.stmt_del(n)
        self.visit(n.test)

    def visit_If(self, n):
        a, b = self.span(n.test)
        self.add('cond-neg', a, b, 'not (%s)' % self.bsrc[a:b].decode(), n)
        self.generic_visit(n)

    def visit_While(self, n):
        self.generic_visit(n)

    def visit_IfExp(self, n):
        a, b = self.span(n.test)
        self.add('cond-neg', a, b, 'not (%s)' % self.bsrc[a:b].decode(), n)
        self.generic_visit(n)

    def visit_Return(self, n):
        self.generic_visit(n)

    # --- expressions ---------------------------------------------------------------------
    def visit_Compare(self, n):
        left = n.left
        for c in n.comparators:
            self.between(left, c, CMP, 'cmp', n)
            left = c
        self.generic_visit(n)

    def visit_BinOp(self, n):
        if isinstance(n.op, ast.Mod) and isinstance(n.left, ast.Constant) and isinstance(n.left.value, str):
            return
        self.between(n.left, n.right, BIN, 'arith', n)
        self.generic_visit(n)

    def visit_BoolOp(self, n):
        for x, y in zip(n.values, n.values[1:]):
            self.between(x, y, {'and': ['or'], 'or': ['and']}, 'bool', n)
        self.generic_visit(n)

    def visit_UnaryOp(self, n):
        a, b = self.span(n)
        oa, ob = self.span(n.operand)
        if isinstance(n.op, (ast.USub, ast.Not)):
            self.add('unary-del', a, b, self.bsrc[oa:ob].decode(), n)
        self.generic_visit(n)

    def visit_Constant(self, n):
        v = n.value
        a, b = self.span(n)
        if isinstance(v, bool):
            self.add('const', a, b, repr(not v), n)
        elif isinstance(v, int):
            for new in ({0: [1], 1: [0, 2], 2: [1, 3]}.get(v) or [v + 1, v - 1]):
                self.add('const', a, b, repr(new), n)
        elif isinstance(v, float):
            for new in ([1.0] if v == 0 else [v * 2, v / 2] if abs(v) >= 1e-3 else [v * 100, v / 100]):
                self.add('const', a, b, repr(new), n)
        elif v is None:
            pass

    def visit_JoinedStr(self, n):
        return

    def visit_Name(self, n):
        if n.id in NAMESWAP and isinstance(n.ctx, ast.Load):
            a, b = self.span(n)
            self.add('name', a, b, NAMESWAP[n.id], n)

    def visit_Attribute(self, n):
        if n.attr in NAMESWAP and isinstance(n.ctx, ast.Load):
            b = self.span(n)[1]
            a = b - len(n.attr.encode())
            self.add('attr', a, b, NAMESWAP[n.attr], n)
        self.generic_visit(n)

    def visit_Subscript(self, n):
        self.generic_visit(n)

    def visit_Call(self, n):
        # swap the first two positional arguments
        if len(n.args) >= 2 and not any(isinstance(x, ast.Starred) for x in n.args[:2]):
            a0, b0 = self.span(n.args[0])
            a1, b1 = self.span(n.args[1])
            s0, s1 = self.bsrc[a0:b0].decode(), self.bsrc[a1:b1].decode()
            if s0 != s1:
                self.add('arg-swap', a0, b1, s1 + self.bsrc[b0:a1].decode() + s0, n)
        # drop a keyword argument
        for k in n.keywords:
            if k.arg is None:
                continue
            ka, kb = self.pos(k.lineno, k.col_offset), self.span(k.value)[1]
            # remove ", kw=value" including the preceding comma
            pre = self.bsrc[:ka].decode()
            m = re.search(r',\s*$', pre)
            if m:
                self.add('kw-del', len(pre[:m.start()].encode()), kb, '', n)
        self.generic_visit(n)


def generate(seed=0, cap=None, thin=0.2):
    rnd = random.Random(seed)
    out = []
    for rel in sorted(FILEMAP):
        p = os.path.join(REPO, rel)
        if not os.path.exists(p):
            continue
        src = open(p).read()
        g = Gen(rel, src)
        g.visit(ast.parse(src))
        ms = []
        for m in g.out:
            new = g.bsrc[:m['a']] + m['new'].encode() + g.bsrc[m['b']:]
            try:
                compile(new, rel, 'exec')
            except SyntaxError:
                continue
            ms.append(m)
        rnd.shuffle(ms)
        # statement deletions mostly end in a NameError at once; keep one in five
        ms = [m for m in ms if m['op'] != 'stmt-del' or rnd.random() < thin]
        if cap:
            ms = ms[:cap]
        out.extend(ms)
    rnd.shuffle(out)
    for i, m in enumerate(out):
        m['id'] = 'M%04d' % i
    return out


def run_one(m, tests=False, checks=None, keep_going=False):
    d = tempfile.mkdtemp(prefix='mc_', dir='/tmp')
    res = dict(m)
    res['checks'] = {}
    try:
        subprocess.run(['rsync', '-a', '--exclude', '.git', REPO + '/', d + '/src/'], check=True)
        p = os.path.join(d, 'src', m['file'])
        b = open(p, 'rb').read()
        assert b[m['a']:m['b']].decode() == m['old'], 'source moved under the mutant list'
        open(p, 'wb').write(b[:m['a']] + m['new'].encode() + b[m['b']:])
        env = dict(os.environ, COPULAS_SRC=d + '/src', VERIF_EVIDENCE_DIR=d + '/ev', PYTHONDONTWRITEBYTECODE='1')
        # does the package still import?
        r = subprocess.run(['/venv/bin/python', '-W', 'ignore', '-c', 'import copulas, copulas.multivariate, copulas.bivariate, copulas.univariate, copulas.visualization, copulas.datasets, copulas.optimize'],
                           env=dict(env, PYTHONPATH=d + '/src'), capture_output=True, text=True, cwd='/tmp')
        if r.returncode != 0:
            res['verdict'] = 'import-fails'
            return res
        res['verdict'] = 'survived'
        for c in (checks or FILEMAP[m['file']]):
            t0 = time.time()
            r = subprocess.run([os.path.join(VERIF, 'check'), c], env=env, capture_output=True, text=True)
            out = r.stdout + r.stderr
            res['checks'][c] = {'exit': r.returncode, 'wall': round(time.time() - t0, 1)}
            if r.returncode == 1:
                sig = re.findall(r'signature: (.*)', out)
                res['checks'][c]['sig'] = sig[:2]
                res['verdict'] = 'detected'
                res['by'] = res.get('by') or c
                if not keep_going:
                    break
            elif r.returncode != 0:
                res['checks'][c]['tail'] = out[-600:]
                res.setdefault('machinery', []).append(c)
        if tests and res['verdict'] == 'survived':
            r = subprocess.run('/venv/bin/python -m pytest -q -x -p no:cacheprovider --timeout=900 tests 2>&1 | tail -3', shell=True,
                               cwd=d + '/src', env=dict({k: v for k, v in os.environ.items() if k != 'COPULAS_VERIF'}, PYTHONPATH=d + '/src'),
                               capture_output=True, text=True)
            res['tests'] = r.stdout.strip().splitlines()[-1:] if r.stdout.strip() else ['?']
    except Exception as e:      # noqa
        res['verdict'] = 'error'
        res['error'] = repr(e)
    finally:
        shutil.rmtree(d, ignore_errors=True)
    return res


def main(argv):
    if argv[0] == 'gen':
        seed = int(argv[argv.index('--seed') + 1]) if '--seed' in argv else 0
        cap = int(argv[argv.index('--cap-per-file') + 1]) if '--cap-per-file' in argv else None
        ms = generate(seed, cap)
        with open(argv[1], 'w') as f:
            for m in ms:
                f.write(json.dumps(m) + '\n')
        print('%d mutants' % len(ms))
    elif argv[0] == 'run':
        ms = [json.loads(x) for x in open(argv[1])]
        jobs = int(argv[argv.index('--jobs') + 1]) if '--jobs' in argv else 3
        if '--only' in argv:
            pat = argv[argv.index('--only') + 1]
            ms = [m for m in ms if re.search(pat, m['file'])]
        if '--first' in argv:
            ms = ms[:int(argv[argv.index('--first') + 1])]
        done = set()
        if os.path.exists(argv[2]):
            done = {json.loads(x)['id'] for x in open(argv[2])}
        ms = [m for m in ms if m['id'] not in done]
        tests = '--tests' in argv
        with ThreadPoolExecutor(jobs) as ex, open(argv[2], 'a') as f:
            for res in ex.map(lambda m: run_one(m, tests), ms):
                f.write(json.dumps(res) + '\n')
                f.flush()
                print(res['id'], res['file'], res['line'], res['op'], repr(res['old'][:30]), '->', repr(res['new'][:30]), res['verdict'], res.get('by', ''),
                      res.get('machinery', ''), res.get('tests', ''), flush=True)
    elif argv[0] == 'report':
        rs = [json.loads(x) for x in open(argv[1])]
        from collections import Counter
        c = Counter((r['file'], r['verdict']) for r in rs)
        files = sorted({r['file'] for r in rs})
        print('%-45s %8s %8s %8s %8s' % ('file', 'detected', 'survived', 'import', 'error'))
        for f in files:
            print('%-45s %8d %8d %8d %8d' % (f, c[(f, 'detected')], c[(f, 'survived')], c[(f, 'import-fails')], c[(f, 'error')]))
        tot = Counter(r['verdict'] for r in rs)
        print('total', dict(tot))
        print()
        for r in rs:
            if r['verdict'] == 'survived' or r.get('machinery'):
                print(r['id'], '%s:%d' % (r['file'], r['line']), r['func'], r['op'], repr(r['old'][:60]), '->', repr(r['new'][:60]), r['verdict'],
                      'machinery=%s' % r.get('machinery') if r.get('machinery') else '', r.get('tests', ''))


if __name__ == '__main__':
    main(sys.argv[1:])
