"""C04  Marginal fitting recovers the generating law; KDE is the kernel estimate."""
import json
import math
import warnings
from multiprocessing import Pool

import numpy as np

from .. import accept as A

LEVEL = 'exploration'
warnings.simplefilter('ignore')
CFG = ('SPECIFICATION Spec\nCONSTANTS\n  MaxVal = %d\n  MaxLen = %d\nINVARIANT VarianceNonNegative\nINVARIANT PopovicoBound\n'
       'INVARIANT Emit\nCHECK_DEADLOCK FALSE\n')


# ---- exact closed forms ------------------------------------------------------------------------------
def _closed(case):
    from copulas.univariate import GaussianUnivariate, UniformUnivariate
    xs = np.array(case['xs'], dtype=float)
    rs = np.random.RandomState(len(xs) * 7 + int(xs.sum()))
    X = rs.permutation(xs) * 1.0
    n = case['n']
    probs = []
    for shift, scale in ((0.0, 1.0), (1000.0, 0.25), (1.7e9, 64.0)):       # also far from the origin with a tiny relative spread          # the identities are affine-equivariant; also away from the origin
        Y = X * scale + shift
        g = GaussianUnivariate()
        g.fit(Y.copy())
        p = g.to_dict()
        if abs(n * (float(p['loc']) - shift) / scale - case['s1']) > 1e-9 * max(1, abs(case['s1'])) * (1 + shift / scale):
            probs.append(('gaussian-loc-is-not-the-sample-mean', '%r vs sum %d / n %d' % (p['loc'], case['s1'], n)))
        if abs((n * float(p['scale']) / scale) ** 2 - case['varnum']) > 1e-9 * max(1, case['varnum']) * (1 + shift / scale):
            probs.append(('gaussian-scale-is-not-the-population-std', 'n^2 scale^2 = %r vs %d' % ((n * float(p['scale']) / scale) ** 2, case['varnum'])))
        u = UniformUnivariate()
        u.fit(Y.copy())
        q = u.to_dict()
        if (float(q['loc']) - shift) / scale != case['lo'] and abs((float(q['loc']) - shift) / scale - case['lo']) > 1e-12:
            probs.append(('uniform-loc-is-not-the-minimum', '%r vs %d' % (q['loc'], case['lo'])))
        if abs(float(q['scale']) / scale - case['range']) > 1e-12:
            probs.append(('uniform-scale-is-not-the-range', '%r vs %d' % (q['scale'], case['range'])))
    return probs


# ---- recovery ------------------------------------------------------------------------------------------
def members():
    """(family, member id, scipy frozen generating law, model factory)"""
    from scipy import stats
    import copulas.univariate as U
    out = []
    for i, (mu, sd) in enumerate(((0, 1), (-40, 0.3), (1e4, 250), (3, 12))):
        out.append(('GaussianUnivariate', 'N%d' % i, stats.norm(mu, sd), lambda: U.GaussianUnivariate(), 'every'))
    for i, (a, w) in enumerate(((0, 1), (-7, 0.02), (50, 900))):
        out.append(('UniformUnivariate', 'U%d' % i, stats.uniform(a, w), lambda: U.UniformUnivariate(), 'every'))
    # the last two members live on a small scale (ranges 5e-3 and 0.09): the family is a location-scale family like the others
    for i, (mu, sd, lo, hi) in enumerate(((0, 1, -1, 2), (5, 3, 4, 6), (10, 2, 0, 30), (2e-3, 1e-3, 0.0, 5e-3), (0.31, 0.02, 0.25, 0.34))):
        a, b = (lo - mu) / sd, (hi - mu) / sd
        out.append(('TruncatedGaussian', 'T%d' % i, stats.truncnorm(a, b, mu, sd),
                    lambda lo=lo, hi=hi: U.TruncatedGaussian(minimum=lo, maximum=hi), 'every'))
    for i, (a, b, lo, w) in enumerate(((2, 5, 0, 1), (0.7, 0.7, 3, 4), (5, 1.5, -2, 10), (1.5, 3, 100, 50))):
        out.append(('BetaUnivariate', 'B%d' % i, stats.beta(a, b, lo, w), lambda: U.BetaUnivariate(), 'most'))
    for i, (a, lo, sc) in enumerate(((2, 0, 1), (0.8, 5, 3), (9, -4, 0.5), (3, 1000, 40))):
        out.append(('GammaUnivariate', 'G%d' % i, stats.gamma(a, lo, sc), lambda: U.GammaUnivariate(), 'most'))
    for i, (df, lo, sc) in enumerate(((3, 0, 1), (8, 20, 4), (30, -3, 0.2), (4.5, 100, 25))):
        out.append(('StudentTUnivariate', 'S%d' % i, stats.t(df, lo, sc), lambda: U.StudentTUnivariate(), 'most'))
    return out


def _recover(job):
    idx, n, seed = job
    fam, mid, law, fac, mode = members()[idx]
    rs = np.random.RandomState(seed)
    X = law.rvs(size=n, random_state=rs)
    st = np.random.get_state()
    try:
        np.random.seed(seed)
        m = fac()
        # two thirds of the instances have a past: a fit to a constant column of zeros, or to a sample from elsewhere, with one query
        if seed % 3:
            try:
                m.fit(np.zeros(12) if seed % 3 == 1 else X[: max(5, n // 4)] * 0.25 - 7.0)
                m.cumulative_distribution(np.array([0.0, 1.0]))
            except Exception:
                pass
        m.fit(X.copy())
        xs = np.sort(X)
        grid = np.concatenate([xs, law.ppf(np.linspace(0.001, 0.999, 199))])
        F = np.asarray(m.cumulative_distribution(grid.copy()), dtype=float)
        d_true = float(np.max(np.abs(F - law.cdf(grid))))
        Fs = F[:n]
        d_emp = float(max(np.max(np.abs(Fs - np.arange(1, n + 1) / n)), np.max(np.abs(Fs - np.arange(0, n) / n))))
        return (fam, mid, n, seed, mode, math.sqrt(n) * d_true, math.sqrt(n) * d_emp, '')
    except Exception as ex:
        return (fam, mid, n, seed, mode, float('inf'), float('inf'), type(ex).__name__)
    finally:
        np.random.set_state(st)


# ---- support ---------------------------------------------------------------------------------------------
def _support(job):
    kind, seed = job
    import copulas.univariate as U
    rs = np.random.RandomState(seed)
    probs = []
    X = {'beta': rs.beta(2, 3, 300) * 5 + 1, 'uniform': rs.uniform(-3, 9, 300), 'skew': rs.gamma(2, 2, 300), 'normal': rs.normal(4, 2, 300)}[kind]
    X0 = X.copy()
    for name, m, lo, hi in (
            ('UniformUnivariate', U.UniformUnivariate(), None, None), ('BetaUnivariate', U.BetaUnivariate(), None, None),
            ('TruncatedGaussian', U.TruncatedGaussian(), None, None),
            ('TruncatedGaussian(bounds)', U.TruncatedGaussian(minimum=float(X.min()) - 2.5, maximum=float(X.max()) + 0.5), float(X.min()) - 2.5, float(X.max()) + 0.5),
            ('TruncatedGaussian(minimum)', U.TruncatedGaussian(minimum=float(X.min()) - 2.5), float(X.min()) - 2.5, None),
            ('TruncatedGaussian(maximum)', U.TruncatedGaussian(maximum=float(X.max()) + 1.5), None, float(X.max()) + 1.5),
            # a bound that is exactly 0 is a bound (the data are moved to one side of it)
            ('TruncatedGaussian(minimum=0)', U.TruncatedGaussian(minimum=0), 0.0, None),
            ('TruncatedGaussian(maximum=0.0)', U.TruncatedGaussian(maximum=0.0), None, 0.0),
            ('TruncatedGaussian(0, hi)', U.TruncatedGaussian(0.0, float(X.max() - X.min()) + 2.0), 0.0, float(X.max() - X.min()) + 2.0),
            # the bounded model as the only candidate of the selecting wrapper (which re-creates it from the prototype): bounds given
            # positionally, by keyword, and one of each
            ('Univariate([TruncatedGaussian(lo, hi)])', U.Univariate(candidates=[U.TruncatedGaussian(float(X.min()) - 2.5, float(X.max()) + 0.5)]), float(X.min()) - 2.5, float(X.max()) + 0.5),
            ('Univariate([TruncatedGaussian(lo, maximum=hi)])', U.Univariate([U.TruncatedGaussian(float(X.min()) - 1.5, maximum=float(X.max()) + 2.5)]), float(X.min()) - 1.5, float(X.max()) + 2.5),
            ('Univariate([TruncatedGaussian(minimum=lo, maximum=hi)])', U.Univariate(candidates=[U.TruncatedGaussian(minimum=float(X.min()) - 0.5, maximum=float(X.max()) + 3.5)]), float(X.min()) - 0.5, float(X.max()) + 3.5)):
        X = X0.copy()
        if '0' in name.split('(')[-1]:
            X = (X0 - X0.min() + 0.3) if 'minimum=0' in name or '(0,' in name else (X0 - X0.max() - 0.3)
        try:
            m.fit(X.copy())
        except Exception:
            continue
        ends = np.asarray(m.percent_point(np.array([0.0, 1.0])), dtype=float)
        if (lo is not None and abs(ends[0] - lo) > 1e-9 * (1 + abs(lo))) or (hi is not None and abs(ends[1] - hi) > 1e-9 * (1 + abs(hi))):
            probs.append((name, 'user-supplied-bounds-not-honoured', 'support %r vs bounds (%r, %r)' % (ends.tolist(), lo, hi)))
        if not np.isfinite(ends).all():
            probs.append((name, 'bounded-family-has-unbounded-support', repr(ends.tolist())))
            continue
        w = ends[1] - ends[0]
        # points strictly outside the support also when the optimiser collapsed it to a width below floating-point resolution
        # (scipy's Beta MLE on normal data: scale 1e-17, ppf(0) == ppf(1); seen with VERIF_SEED=41)
        far = [max(w, 1e-6 * max(1, abs(e))) for e in ends]
        out = np.array([ends[0] - 1e-9 * max(1, abs(ends[0])) - 1e-6 * w, ends[0] - far[0], ends[1] + 1e-9 * max(1, abs(ends[1])) + 1e-6 * w, ends[1] + far[1]])
        F = np.asarray(m.cumulative_distribution(out), dtype=float)
        P = np.asarray(m.probability_density(out), dtype=float)
        if not (np.all(F[:2] == 0.0) and np.all(F[2:] == 1.0) and np.all(P == 0.0)):
            probs.append((name, 'mass-outside-fitted-support', 'cdf %r pdf %r' % (F.tolist(), P.tolist())))
        if ends[0] > X.min() + 1e-9 * w or ends[1] < X.max() - 1e-9 * w:
            if name != 'BetaUnivariate':        # scipy's Beta MLE may move loc/scale inside the data range only by an optimiser failure
                probs.append((name, 'fitted-support-does-not-cover-the-data', '%r vs data [%r, %r]' % (ends.tolist(), X.min(), X.max())))
        m.set_random_state(seed)
        s = np.asarray(m.sample(500), dtype=float)
        if s.min() < ends[0] - 1e-9 * w or s.max() > ends[1] + 1e-9 * w:
            probs.append((name, 'sample-outside-fitted-support', '[%r, %r]' % (s.min(), s.max())))
    return probs


# ---- KDE is the kernel estimate ------------------------------------------------------------------------------
def _kde(job):
    rule, n, weighted, sample_size, seed, (shift, scale) = job
    from copulas.univariate import GaussianKDE
    rs = np.random.RandomState(seed)
    X = np.concatenate([rs.normal(0, 1, n // 2), rs.normal(5, 2, n - n // 2)]) * scale + shift       # the kernel estimate is affine-equivariant
    w = rs.uniform(0.2, 2.0, n) if weighted else None
    kw = {}
    if rule is not None:
        kw['bw_method'] = rule
    if w is not None:
        kw['weights'] = w
    if sample_size:
        kw['sample_size'] = sample_size
    st = np.random.get_state()
    try:
        np.random.seed(seed)
        m = GaussianKDE(**kw)
        Xc = X.copy()
        m.fit(Xc)
        if seed % 2:
            # the caller reuses its array after the fit (next batch in the same buffer): the estimate stays that of the training data
            Xc -= 2.5 * scale
            Xc[::2] *= -1.0
    finally:
        np.random.set_state(st)
    data = np.asarray(m.to_dict()['dataset'], dtype=float).ravel()
    probs = []
    if sample_size:
        if len(data) != sample_size:
            probs.append(('resample-size', '%d vs %d' % (len(data), sample_size)))
        ww = None if w is None or len(w) != len(data) else w
        if w is not None and len(w) != len(data):
            ww = None
    else:
        if len(data) != n or not np.array_equal(np.sort(data), np.sort(X)):
            probs.append(('training-data-not-kept', ''))
        data = X.copy()          # the estimate is defined on the training data in the order given (weights are positional)
        ww = w
    nn = len(data)
    wn = np.full(nn, 1.0 / nn) if ww is None else ww / ww.sum()
    neff = 1.0 / np.sum(wn ** 2)
    mean = np.sum(wn * data)
    var = np.sum(wn * (data - mean) ** 2) / (1.0 - np.sum(wn ** 2))        # ddof = 1 (weighted form)
    if rule is None or rule == 'scott':
        fac = neff ** (-1.0 / 5)
    elif rule == 'silverman':
        fac = (neff * 3.0 / 4.0) ** (-1.0 / 5)
    else:
        fac = float(rule)
    h = fac * math.sqrt(var)
    grid = np.linspace(data.min() - 3 * scale, data.max() + 3 * scale, 61)
    mine = np.array([np.sum(wn * np.exp(-0.5 * ((x - data) / h) ** 2)) / (h * math.sqrt(2 * math.pi)) for x in grid])
    try:
        theirs = np.asarray(m.probability_density(grid.copy()), dtype=float)
        rel = float(np.max(np.abs(theirs - mine) / np.maximum(np.abs(mine), 1e-300)))
    except Exception as ex:
        return probs + [('pdf-raised-' + type(ex).__name__, '')], float('inf')
    return probs, rel


def run(ctx):
    quick = ctx.tier == 'quick'
    ctx.rule = ('(a) TLC (ClosedFormFit) enumerates every multiset of size 2..%d over 0..4 with two distinct values and its integer sufficient statistics; '
                'the real Gaussian / Uniform estimators must satisfy the exact identities (also after an affine change of the data); (b) recovery: 22 '
                'family members x n in {200, 1000, 5000} x %d seeds, sqrt(n) * sup|F_fit - F_true| and the same against the empirical CDF; TLC '
                '(Acceptance): <= 8 for every data set of the closed-form / own-optimiser families, <= 2.5 for >= 60 %% of the data sets per (family, n) cell of the '
                'families delegated to scipy\'s MLE (the unchanged code scores 75-100 %%); (c) bounded families: no mass outside the fitted support, user bounds honoured, samples inside; '
                '(d) GaussianKDE density equals the harness\'s own weighted Gaussian kernel sum (scott / silverman / scalar rule, weights, '
                'sample_size) to 1e-9.  non-trivial = every case; distinct by content') % ((6, 4) if quick else (7, 12))
    ctx.assumptions = ['LogLaplace recovery is not claimed (the unchanged code recovers 72-84 %% of the data sets on a free-location grid, too close to the 80 %% line)',
                       'band constants from the calibration of the unchanged code (DESIGN.md section 8, C04)']
    r = ctx.tlc('ClosedFormFit', 'ClosedFormFit', CFG % (4, 6 if quick else 7), workers=1, timeout=900)
    cases = [c[0] for c in r.tagged('CASE')]
    mem = members()
    seeds = range(4 if quick else 12)
    rjobs = [(i, n, ctx.seed * 977 + 13 * s + i) for i in range(len(mem)) for n in (200, 1000, 5000) for s in seeds]
    sjobs = [(k, ctx.seed + j) for j, k in enumerate(('beta', 'uniform', 'skew', 'normal'))]
    kjobs = [(rule, n, wt, ss, ctx.seed + 5, aff) for rule in (None, 'scott', 'silverman', 0.3, 1.0) for n in (12, 80) for wt in (False, True)
             for ss in (None, 30) if not (wt and ss) for aff in ((0.0, 1.0), (5.0, 2e-5), (-3.0e4, 400.0))]
    with Pool(16) as pool:
        rc = pool.map(_closed, cases, chunksize=16)
        rr = pool.map(_recover, rjobs, chunksize=2)
        rsup = pool.map(_support, sjobs, chunksize=1)
        rk = pool.map(_kde, kjobs, chunksize=2)
    for case, probs in zip(cases, rc):
        ctx.case('closed|' + json.dumps(case['xs']))
        for p, detail in probs:
            ctx.violation('C04|closed-form|%s|n=%d' % (p, case['n']), '%s on sample %s: %s' % (p, case['xs'], detail), case)
    ctx.traces += len(cases)
    recs, meta = [], []
    cells = {}
    for fam, mid, n, seed, mode, dt, de, err in rr:
        ctx.case('recover|%s|%s|%d|%d' % (fam, mid, n, seed))
        if err:
            ctx.violation('C04|%s|fit-raised-%s|%s' % (fam, err, mid), '%s fit raised %s on a sample of its own family (%s, n=%d)' % (fam, err, mid, n), [fam, mid, n, seed])
            continue
        if mode == 'every':
            recs.append(A.le('%s|%s|n=%d|seed=%d|true' % (fam, mid, n, seed), dt, 8.0))
            meta.append((fam, 'fitted-cdf-far-from-generating-cdf', mid, n, dt))
            recs.append(A.le('%s|%s|n=%d|seed=%d|emp' % (fam, mid, n, seed), de, 8.0))
            meta.append((fam, 'fitted-cdf-far-from-empirical-cdf', mid, n, de))
        else:
            k, t = cells.get((fam, n), (0, 0))
            cells[(fam, n)] = (k + int(dt <= 2.5 and de <= 2.5), t + 1)
    for (fam, n), (k, t) in sorted(cells.items()):
        # the property's line is 80 %; on this member grid the unchanged code scores 75-100 % per cell (scipy's t.fit drifts for
        # df=4.5, loc=100, scale=25), so the acceptance line is 60 %: a wrong estimator scores ~0 %
        recs.append(A.count('%s|n=%d' % (fam, n), k, t, 60))
        meta.append((fam, 'too-few-datasets-recovered', 'all', n, k / t))
    for i in A.evaluate(ctx, 'Acceptance.recovery', recs):
        fam, what, mid, n, val = meta[i]
        ctx.violation('C04|%s|%s|n=%d' % (fam, what, n), '%s: %s (member %s, n=%d, statistic %.3f)' % (fam, what, mid, n, val), recs[i])
    ctx.extra['recovery_cells'] = {'%s|n=%d' % k: '%d/%d' % v for k, v in sorted(cells.items())}
    ctx.extra['max_sqrt_n_distance_closed_form_families'] = max([dt for f, m, n, s, mode, dt, de, e in rr if mode == 'every' and not e] or [0])
    for job, probs in zip(sjobs, rsup):
        ctx.case('support|%s' % job[0])
        for name, p, detail in probs:
            ctx.violation('C04|%s|%s|%s' % (name, p, job[0]), '%s: %s on %s data: %s' % (name, p, job[0], detail), list(job))
    krecs, kmeta = [], []
    for job, (probs, rel) in zip(kjobs, rk):
        ctx.case('kde|' + json.dumps(job[:4] + job[5:]))
        tag = 'rule=%s,weights=%s,sample_size=%s,scale=%g' % (job[0], job[2], job[3], job[5][1])
        for p, detail in probs:
            ctx.violation('C04|GaussianKDE|%s|%s' % (p, tag), 'GaussianKDE %s: %s %s' % (tag, p, detail), list(job))
        krecs.append(A.ratio('kde|' + tag + '|n=%d' % job[1], rel, 1e-9))
        kmeta.append((tag, rel, job))
    for i in A.evaluate(ctx, 'Acceptance.kde', krecs):
        tag, rel, job = kmeta[i]
        ctx.violation('C04|GaussianKDE|density-is-not-the-kernel-estimate|%s' % tag,
                      'GaussianKDE (%s, n=%d): density differs from the weighted Gaussian kernel estimate by %.3g relative' % (tag, job[1], rel), list(job))
    ctx.sample(cases[len(cases) // 2])
    ctx.sample({'recover': list(rr[0][:7])})
    ctx.exhaustive = False
