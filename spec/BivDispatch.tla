------------------------------- MODULE BivDispatch -------------------------------
(***************************************************************************)
(* The constructor dispatch of copulas.bivariate.Bivariate (extra: no listed  *)
(* property speaks about it, C14 / C19 rely on it through Bivariate(           *)
(* copula_type=...) and Bivariate.from_dict).                                 *)
(*                                                                            *)
(*   Bivariate.__new__(cls, *args, **kwargs):                                 *)
(*      copula_type = kwargs.get('copula_type')      -- keyword only           *)
(*      None                    -> an instance of cls itself                   *)
(*      not a member / a name   -> ValueError                                  *)
(*      otherwise               -> the first class in cls.subclasses() whose   *)
(*                                 copula_type is the member; None if there    *)
(*                                 is none (the loop falls through)            *)
(*   subclasses(): `if not cls._subclasses: cls._subclasses = cls._get_subclasses()`*)
(*                                                                            *)
(* What makes this a state machine: the answer of subclasses() is kept in a   *)
(* class attribute the first time it is non-empty, the family classes look    *)
(* the attribute up through inheritance (and shadow it with their own empty    *)
(* list when they are asked before the base class was), and the package does  *)
(* not import the module of the fourth family.  So the result of a dispatch   *)
(* depends on the calls and imports that happened before it in the process.   *)
(*                                                                            *)
(* Intended = FALSE is the code as it is (every step below transcribes it);   *)
(* Intended = TRUE is the history-free design (the registered classes are     *)
(* consulted on every call, from every entry class).  TLC checks the           *)
(* history-free properties on the intended design, must refute them on the    *)
(* code model, and checks on the code model what does hold in every history.  *)
(* The behaviours it emits are executed on the real classes, one forked       *)
(* process per behaviour.                                                      *)
(***************************************************************************)
EXTENDS Integers, Sequences, FiniteSets, TLC

CONSTANTS MaxLen, Intended, Entries, ReqKinds, ReqFams

Exported == {"CLAYTON", "FRANK", "GUMBEL"}
Families == Exported \cup {"INDEPENDENCE"}
\* a request: how the type is spelled and which family it names
\*   enum  CopulaTypes.X      upper 'X'      lower 'x'      mixed 'Xx...'      positional  Bivariate('x') (no keyword)
\*   bogus 'no-such-family'   number 3 (neither a member nor a string)
\*   fromdict  <entry>.from_dict({'copula_type': 'X', 'theta': .., 'tau': ..}): a keyword dispatch, then attributes are set on the
\*             result - AttributeError when the dispatch fell through to None
Keyword == {"enum", "upper", "lower", "mixed", "fromdict"}
AllRequests == (Keyword \X Families) \cup {<<"positional", f>> : f \in Families} \cup {<<"bogus", "-">>, <<"number", "-">>}
\* the configuration names kinds and families (a configuration file cannot hold tuples); a kind without a family takes "-"
Requests == {rq \in AllRequests : rq[1] \in ReqKinds /\ (rq[2] \in ReqFams \/ rq[2] = "-")}
ASSUME Entries \subseteq ({"Bivariate"} \cup Exported)

NONE == {"none"}        \* (a set, so that it can be compared with the cached sets)
VARIABLES registered,   \* families whose class exists in the process (module imported)
          cache,        \* Bivariate._subclasses once it is non-empty: a set of families, or NONE
          shadowed,     \* entry classes that carry their own (empty) _subclasses list
          out,          \* result of the last call: a family (instance of that class), "base:<entry>", "None", "ValueError"
          hist
vars == <<registered, cache, shadowed, out, hist>>

Init == /\ registered = Exported          \* `import copulas.bivariate` imports three family modules
        /\ cache = NONE /\ shadowed = {} /\ out = "-" /\ hist = <<>>

ImportIndependence ==
  /\ registered' = registered \cup {"INDEPENDENCE"}
  /\ UNCHANGED <<cache, shadowed>> /\ out' = "imported"
  /\ hist' = Append(hist, [e |-> "Import", en |-> "-", kind |-> "-", fam |-> "-", out |-> "imported"])

\* the list subclasses() answers for entry class en, and its side effects
Consulted(en) ==
  IF Intended THEN registered
  ELSE IF en = "Bivariate" THEN (IF cache # NONE THEN cache ELSE registered)
  ELSE IF en \in shadowed THEN {}                 \* its own empty list is found first, recomputed, empty again
  ELSE IF cache # NONE THEN cache                 \* inherited from the base class
  ELSE {}                                          \* a family class has no subclasses of its own
Dispatch(en, rq) ==
  /\ LET kind == rq[1] fam == rq[2] IN
     IF kind = "positional" THEN
        /\ out' = "base:" \o en /\ UNCHANGED <<cache, shadowed>>
     ELSE IF kind \in {"bogus", "number"} THEN
        /\ out' = "ValueError" /\ UNCHANGED <<cache, shadowed>>
     ELSE
        /\ out' = IF fam \in Consulted(en) THEN fam ELSE IF kind = "fromdict" THEN "AttributeError" ELSE "None"
        /\ cache' = IF ~Intended /\ en = "Bivariate" /\ cache = NONE THEN registered ELSE cache
        /\ shadowed' = IF ~Intended /\ en # "Bivariate" /\ en \notin shadowed /\ cache = NONE THEN shadowed \cup {en} ELSE shadowed
  /\ UNCHANGED registered
  /\ hist' = Append(hist, [e |-> "Dispatch", en |-> en, kind |-> rq[1], fam |-> rq[2], out |-> out'])

Next == /\ Len(hist) < MaxLen
        /\ \/ ImportIndependence
           \/ \E en \in Entries, rq \in Requests : Dispatch(en, rq)
Spec == Init /\ [][Next]_vars

(* ---- properties ---------------------------------------------------------------------------- *)
Last == hist[Len(hist)]
IsKeywordDispatch == hist # <<>> /\ Last.e = "Dispatch" /\ Last.kind \in Keyword

\* holds on the code in every history: a dispatch never yields another family than the one named
DispatchSound == IsKeywordDispatch => out \in {Last.fam, "None", "AttributeError"}
\* holds on the code in every history: the three exported families dispatch from the base class
ExportedAlwaysDispatch == (IsKeywordDispatch /\ Last.en = "Bivariate" /\ Last.fam \in Exported) => out = Last.fam
\* holds on the code in every history: what is not a family is refused, whatever was called before
InvalidRefused == (hist # <<>> /\ Last.e = "Dispatch" /\ Last.kind \in {"bogus", "number"}) => out = "ValueError"
\* the cache only ever holds registered families and never changes once set
CacheFrozen == [][cache # NONE => cache' = cache]_vars
CacheSubset == cache # NONE => cache \subseteq registered

\* history-free design (Intended = TRUE); the code model violates both:
\*   a registered family dispatches from the base class, whenever it was imported
RegisteredDispatch == (IsKeywordDispatch /\ Last.en = "Bivariate" /\ Last.fam \in registered) => out = Last.fam
\*   the entry class does not matter
EntryIndependent == (IsKeywordDispatch /\ Last.fam \in registered) => out = Last.fam

Emit == Len(hist) = MaxLen => PrintT(<<"BEH", hist>>)
=============================================================================
