"""C08  percent_point inverts the conditional CDF of every bivariate copula."""
from multiprocessing import Pool

import numpy as np

from .. import observe_bi as O

LEVEL = 'exploration'


def _observe(job):
    fam, pos, theta, npts = job[:4]
    m = O.make(fam, theta, as_int=(len(job) > 4 and bool(job[4])))
    g = O.edge_grid(npts)
    n = len(g)
    U = np.full((n, n), np.nan)
    err = [['' for _ in range(n)] for _ in range(n)]
    if fam in ('Frank', 'Gumbel') and float(theta) >= 1.0:
        # a live copula of the other solver-based family that carries the same parameter VALUE has answered the same questions before:
        # what one object worked out is no business of another
        try:
            cousin = O.make('Gumbel' if fam == 'Frank' else 'Frank', float(theta))
            with np.errstate(all='ignore'):
                for i in range(0, n, 2):
                    for j in range(n):
                        try:
                            cousin.percent_point(np.array([g[i]]), np.array([g[j]]))
                        except Exception:
                            pass
        except Exception:
            pass
    with np.errstate(all='ignore'):
        for i in range(n):          # y index
            for j in range(n):      # v index
                try:
                    U[i, j] = float(np.ravel(m.percent_point(np.array([g[i]]), np.array([g[j]])))[0])
                except Exception as ex:
                    err[i][j] = type(ex).__name__
        ok = np.isfinite(U)
        R = np.full((n, n), np.nan)
        pts = np.column_stack([np.where(ok, U, 0.5).ravel(), np.tile(g, n)])
        R = np.asarray(m.partial_derivative(pts), dtype=float).reshape(n, n)
        R[~ok] = np.nan
        # element-wise evaluation: vectors of length 2, the whole grid, a permutation, with repeated entries
        good = [(i, j) for i in range(n) for j in range(n) if not err[i][j]]
        batch = []
        ufx = O.fx(U)
        if good:
            rs = np.random.RandomState(pos)
            sel = [good[t] for t in rs.choice(len(good), size=min(60, len(good)), replace=False)]
            for order in (sel, sel[::-1], sel + sel[:5], sel[:2]):
                y = np.array([g[i] for i, j in order])
                v = np.array([g[j] for i, j in order])
                try:
                    out = O.fx(np.asarray(m.percent_point(y.copy(), v.copy()), dtype=float))
                    for t, (i, j) in enumerate(order):
                        batch.append({'a': int(ufx[i, j]), 'b': int(out[t])})
                except Exception:
                    batch.append({'a': 0, 'b': 1})
            # the arguments as pandas Series whose integer labels are not 0..n-1 in order (columns of a sorted / filtered frame)
            import pandas as pd
            lab = rs.permutation(len(sel)) + 3
            try:
                out = O.fx(np.asarray(m.percent_point(pd.Series([g[i] for i, j in sel], index=lab), pd.Series([g[j] for i, j in sel], index=lab)), dtype=float))
                for t, (i, j) in enumerate(sel):
                    batch.append({'a': int(ufx[i, j]), 'b': int(out[t])})
            except Exception:
                batch.append({'a': 0, 'b': 1})
            # an object that answered exactly these questions under another parameter before it was given this one
            if fam != 'Independence':
                other = {'Clayton': 3.1, 'Gumbel': 1.9, 'Frank': -6.5 if theta > 0 else 7.5}[fam]
                m2 = O.make(fam, other)
                y = np.array([g[i] for i, j in sel])
                v = np.array([g[j] for i, j in sel])
                try:
                    m2.percent_point(y.copy(), v.copy())
                except Exception:
                    pass
                try:
                    m2.theta, m2.tau = m.theta, m.tau
                    out = O.fx(np.asarray(m2.percent_point(y.copy(), v.copy()), dtype=float))
                    for t, (i, j) in enumerate(sel):
                        batch.append({'a': int(ufx[i, j]), 'b': int(out[t])})
                except Exception:
                    batch.append({'a': 0, 'b': 1})
            # rows that are close to each other without being equal (a few 1e-7 apart) are different rows
            near = [(g[i], g[j]) for i, j in sel[:8]]
            near = near + [(min(y + 3e-7, 1 - 1e-9), min(v + 2e-7, 1 - 1e-9)) for y, v in near] + [(max(y - 4e-7, 1e-9), v) for y, v in near]
            try:
                single = [float(np.ravel(m.percent_point(np.array([y]), np.array([v])))[0]) for y, v in near]
                out = np.asarray(m.percent_point(np.array([y for y, v in near]), np.array([v for y, v in near])), dtype=float)
                for a, b in zip(O.fx(np.array(single)), O.fx(out)):
                    batch.append({'a': int(a), 'b': int(b)})
            except Exception:
                batch.append({'a': 0, 'b': 1})
    # residual tolerance: root-finder tolerance 1e-6 (the property's "up to root-finder tolerance")
    return {'fam': fam, 'theta': '%.6g' % theta, 'S': O.S, 'Y': O.fx(g).tolist(), 'U': ufx.tolist(), 'R': O.fx(R).tolist(),
            'err': err, 'tol': 100, 'batch': batch, 'grid': g.tolist(),
            'maxres': float(np.nanmax(np.abs(R - g[:, None]))) if ok.any() else 0.0}


def run(ctx):
    quick = ctx.tier == 'quick'
    nchain = 12 if quick else 40
    npts = 12 if quick else 20
    ctx.rule = ('for each family a chain of %d thetas over the property range and a %dx%d grid of (y, v) in [1e-4, 1-1e-4]^2 refined towards the '
                'ends: u = percent_point(y, v) (one-element calls) must lie in [0,1], satisfy |partial_derivative(u, v) - y| <= 1e-6, be '
                'non-decreasing in y; vector calls of length 2, 60, 65 (with repeats), reversed order and with rows a few 1e-7 apart must reproduce the one-element results. '
                'TLC (InverseLaws) evaluates the laws.  non-trivial = every table; distinct by (family, theta)') % (nchain, npts + 1, npts + 1)
    ctx.assumptions = ['the inverse is judged through the implementation\'s own partial_derivative (C07 ties that to the CDF)']
    jobs = [(fam, pos, th, npts) for fam in O.FAMS4 for pos, th in enumerate(O.chain(fam, nchain), 1)]
    jobs += [('Frank', 90, 5e-8, npts), ('Frank', 91, -3e-8, npts)]      # Frank's parameter may be arbitrarily close to 0
    jobs += [(fam, 80 + i, float(t), npts, 1) for fam, ts in (('Clayton', (2, 5)), ('Gumbel', (2, 5)), ('Frank', (-3, 4))) for i, t in enumerate(ts)]      # integer-typed parameters
    with Pool(16) as pool:
        obs = pool.map(O.Safe(_observe), jobs, chunksize=1)
    obs, jobs = O.split_raised(ctx, 'C08', obs, jobs, 'harness.props.C08._observe')
    if len(obs) < 6:        # (nearly) every observation raised: the violations are recorded, there is no table left to judge
        ctx.exhaustive = False
        return
    ctx.extra['max_residual'] = max(o['maxres'] for o in obs)
    recs = [{k: v for k, v in o.items() if k not in ('maxres', 'grid')} for o in obs]
    verdict = O.run_laws(ctx, 'InverseLaws', 'InverseLaws', recs)
    for o in obs:
        ctx.case('%s|%s' % (o['fam'], o['theta']))
    ctx.sample({'fam': obs[2]['fam'], 'theta': obs[2]['theta'], 'Y': obs[2]['Y'][:5], 'U_col1': [r[0] for r in obs[2]['U']][:5]})
    for i, laws in verdict:
        o = obs[i]
        for law in laws:
            region = ''
            if law == 'percent_point-raised':
                g = o['grid']
                pts = [(g[a], g[b], o['err'][a][b]) for a in range(len(g)) for b in range(len(g)) if o['err'][a][b]]
                corner = all(y <= 1e-3 and v <= 1e-3 for y, v, e in pts)
                region = '|%s,%s' % (pts[0][2], 'corner(y,v<=1e-3)' if corner else 'elsewhere')
            ctx.violation('C08|%s|%s|%s%s' % (o['fam'], law, O.theta_bucket(o['fam'], float(o['theta'])), region),
                          '%s percent_point at theta=%s violates %s' % (o['fam'], o['theta'], law),
                          {'fam': o['fam'], 'theta': o['theta'], 'law': law, 'rerun': ['harness.props.C08._observe', list(jobs[i])]})
    ctx.traces += len(obs)          # observation tables / samples of the real code judged by TLC
    ctx.exhaustive = False
