--------------------------------- MODULE Addons ---------------------------------
(***************************************************************************)
(* The add-on loader of the package (copulas/__init__.py): at import time    *)
(* every entry point of the group "copulas_modules" is loaded and attached   *)
(* to the place its *name* designates, "pkg.sub.mod:obj.attr".  This module  *)
(* is not tied to one of the listed properties: it extends the specification *)
(* to a part of the system the properties do not mention.                    *)
(*                                                                           *)
(* World: the objects reachable from the package are paths (sequences of     *)
(* identifiers starting with the package name); a path is a module or a      *)
(* plain object.  One step of Next = one iteration of the loop in            *)
(* _find_addons: load the entry point, resolve the target, register module   *)
(* add-ons in sys.modules (never overwriting), set the attribute.  What the  *)
(* code does, including its sharp edges, is modelled:                        *)
(*   - a name without ":" whose module path has one element attaches the     *)
(*     add-on to the package under the package's own name;                   *)
(*   - a *module* add-on whose target is a plain object makes the loader     *)
(*     fail (the object has no __name__): action Crash.                      *)
(***************************************************************************)
EXTENDS Naturals, Sequences, FiniteSets, SequencesExt, TLC

CONSTANTS Pkg,          \* the package name
          Modules0,     \* initial paths that are modules
          Objects0,     \* initial paths that are plain objects
          ModPaths,     \* module paths an entry-point name may carry (sequences of identifiers)
          ObjPaths,     \* object paths (possibly empty)
          MaxEntries    \* length of the entry-point list

Kinds == {"module", "object", "fail"}      \* what entry_point.load() gives: a module, another object, or an exception
Entries == [mp : ModPaths, op : ObjPaths, kind : Kinds]

VARIABLES eps,      \* the list of entry points (chosen in Init)
          i,        \* index of the entry point processed next
          mods,     \* paths that are modules
          objs,     \* paths that are plain objects
          owner,    \* path -> 0 (original) or index of the entry point whose add-on sits there
          mname,    \* module path -> the module's __name__ (a sequence of identifiers; add-on modules bring their own)
          sysmods,  \* module name -> index of the add-on registered under it in sys.modules (0: an original module)
          warn,     \* sequence of warnings: <<index, "load" | "target">>
          crashed
vars == <<eps, i, mods, objs, owner, mname, sysmods, warn, crashed>>

Exists(p) == p \in mods \cup objs
Strict(p, q) == Len(q) > Len(p) /\ SubSeq(q, 1, Len(p)) = p        \* q lies strictly below p

\* ---- _get_addon_target ----------------------------------------------------------------------
\* result: <<"ok", base path, attribute name>> or <<"err">>
Target(e) ==
  LET mp == e.mp
      op == e.op
  IN IF mp[1] # Pkg THEN <<"err">>
     ELSE LET inner == Front(mp) IN          \* the package, then getattr along mp[2 .. Len-1]
          IF Len(mp) > 1 /\ ~Exists(inner) THEN <<"err">>
          ELSE IF op = <<>> THEN <<"ok", IF Len(mp) = 1 THEN <<Pkg>> ELSE inner, mp[Len(mp)]>>
          ELSE IF Len(mp) > 1 /\ ~Exists(mp) THEN <<"err">>
          ELSE LET base == IF Len(mp) > 1 THEN mp ELSE <<Pkg>>
                   deep == base \o Front(op)
               IN IF Len(op) > 1 /\ ~Exists(deep) THEN <<"err">>
                  ELSE <<"ok", deep, op[Len(op)]>>

Init ==
  /\ eps \in UNION {[1..n -> Entries] : n \in 1..MaxEntries}
  /\ i = 1
  /\ mods = Modules0
  /\ objs = Objects0
  /\ owner = [p \in Modules0 \cup Objects0 |-> 0]
  /\ mname = [p \in Modules0 |-> p]
  /\ sysmods = [p \in Modules0 |-> 0]
  /\ warn = <<>>
  /\ crashed = FALSE

Running == ~crashed /\ i <= Len(eps)

LoadFails ==
  /\ Running /\ eps[i].kind = "fail"
  /\ warn' = Append(warn, <<i, "load">>)
  /\ i' = i + 1
  /\ UNCHANGED <<eps, mods, objs, owner, mname, sysmods, crashed>>

TargetFails ==
  /\ Running /\ eps[i].kind # "fail" /\ Target(eps[i])[1] = "err"
  /\ warn' = Append(warn, <<i, "target">>)
  /\ i' = i + 1
  /\ UNCHANGED <<eps, mods, objs, owner, mname, sysmods, crashed>>

\* a module add-on needs the target's __name__; a plain object has none
Crash ==
  /\ Running /\ eps[i].kind = "module"
  /\ LET t == Target(eps[i]) IN t[1] = "ok" /\ t[2] \in objs
  /\ crashed' = TRUE
  /\ UNCHANGED <<eps, i, mods, objs, owner, mname, sysmods, warn>>

Attach ==
  /\ Running /\ eps[i].kind # "fail"
  /\ LET t == Target(eps[i]) IN
       /\ t[1] = "ok"
       /\ ~(eps[i].kind = "module" /\ t[2] \in objs)
       /\ LET place == Append(t[2], t[3])
              below == {q \in DOMAIN owner : Strict(place, q)}        \* what hung under the replaced attribute is gone
              keep  == (DOMAIN owner \ below) \cup {place}
          IN /\ owner' = [p \in keep |-> IF p = place THEN i ELSE owner[p]]
             /\ mods' = ((mods \ below) \ {place}) \cup (IF eps[i].kind = "module" THEN {place} ELSE {})
             /\ objs' = ((objs \ below) \ {place}) \cup (IF eps[i].kind = "object" THEN {place} ELSE {})
             /\ mname' = [p \in mods' |-> IF p = place THEN <<"addon", ToString(i)>> ELSE mname[p]]
             /\ LET key == Append(mname[t[2]], t[3]) IN         \* f'{addon_target.__name__}.{addon_name}'
                  sysmods' = IF eps[i].kind = "module" /\ key \notin DOMAIN sysmods
                             THEN [p \in DOMAIN sysmods \cup {key} |-> IF p = key THEN i ELSE sysmods[p]]
                             ELSE sysmods
  /\ i' = i + 1
  /\ UNCHANGED <<eps, warn, crashed>>

Next == LoadFails \/ TargetFails \/ Crash \/ Attach
Spec == Init /\ [][Next]_vars

\* ---- properties ---------------------------------------------------------------------------------
TypeOK == /\ i \in 1..(Len(eps) + 1)
          /\ mods \cap objs = {}
          /\ DOMAIN owner = mods \cup objs
          /\ DOMAIN mname = mods

\* every processed entry point has exactly one outcome: a warning or an attachment
OneOutcomeEach ==
  ~crashed => Len(warn) + Cardinality({p \in DOMAIN owner : owner[p] # 0 /\ owner[p] < i}) <= i - 1

\* an entry whose name does not start with the package never changes anything
ForeignNamesAttachNothing ==
  \A p \in DOMAIN owner : owner[p] # 0 => eps[owner[p]].mp[1] = Pkg

\* a failed entry point does not stop the following ones (only Crash does)
FailuresDoNotStopTheLoop == (~crashed /\ i <= Len(eps)) => ENABLED Next

\* sys.modules entries are never replaced
SysModulesAreNeverOverwritten ==
  [][\A p \in DOMAIN sysmods : p \in DOMAIN sysmods' /\ sysmods'[p] = sysmods[p]]_vars

\* the original modules of the package stay registered under their own identity
OriginalModulesStayRegistered == \A p \in Modules0 : p \in DOMAIN sysmods /\ sysmods[p] = 0

Done == crashed \/ i > Len(eps)
Emit == Done => PrintT(<<"CASE", [eps |-> eps, crashed |-> crashed, warn |-> warn,
                                  owner |-> {<<p, owner[p]>> : p \in {q \in DOMAIN owner : owner[q] # 0}},
                                  sysmods |-> {<<p, sysmods[p]>> : p \in {q \in DOMAIN sysmods : sysmods[q] # 0}},
                                  gone |-> (Modules0 \cup Objects0) \ DOMAIN owner]>>)
=============================================================================
