"""C14  Serialisation round-trips preserve every model's observable behaviour."""
import os

from .. import bindings as B
from .. import session_jobs as SJ
from .. import tlc as T

LEVEL = 'model_checking'
CFG = os.path.join(T.SPEC, 'cfg')

CLAUSES = {'model-behaviour-differs', 'equal-models-behave-differently', 'lifecycle-state-differs',
           'model-generator-differs', 'model-generator-presence-differs', 'equal-generators-differ',
           'wrong-exception-class', 'expected-error-but-call-returned', 'unexpected-exception', 'result-differs'}

ECHO_SOURCES = ()


def relevant(clause, shape):
    if shape.startswith(('GlobalSeed', 'GlobalDraw', 'Dataset', 'Fit')):
        return False
    if shape == 'Reset' and clause != 'equal-models-behave-differently':
        return False
    return clause in CLAUSES


def alphabet(b):
    a = ["ToDict", "FromDict", "Save", "Load", "Sample"]
    if b.json_ok:
        a.append("JsonTrip")
    return a


def plans(b, quick):
    data = list(b.valid)
    cfgs = [c for c in b.cfgs if c not in b.draw_cfgs]
    out = [(SJ.gen_cfg(b, 4 if quick else 5, alphabet(b), init='InitOne', nobj=3, cfgs=cfgs, data=data,
                       seeds=(1,), sizes=(9,), arts=(1,)), {}, 3)]
    out.append((SJ.gen_cfg(b, 7, alphabet(b), init='InitOne', nobj=3, cfgs=cfgs, data=data,
                           seeds=(1,), sizes=(9,), arts=(1, 2)),
                {'simulate': 'num=%d' % (80 if quick else 800), 'depth': 8}, 3))
    return out


def run(ctx):
    quick = ctx.tier == 'quick'
    ctx.rule = ('TLC enumerates every behaviour of Session over the serialisation alphabet (to_dict, from_dict through the '
                'class and the generic entry point, JSON encode/decode, save, load, sample) from every one-model set-up '
                '(each option set, each data kind incl. constant and unfitted, seeded) up to the tier bound, plus simulated '
                'longer round-trip chains; each is executed on real objects of every model class; non-trivial = contains '
                'a FromDict or Load; distinct by content')
    ctx.assumptions = ['observable behaviour = family, NaN-aware to_dict, all queries on a probe set, sample stream of a '
                       're-seeded deep copy (rtol 1e-9); generator identity through the full MT19937 state',
                       'the JSON leg is exercised for univariate, bivariate and Gaussian-multivariate models only, as the property states']
    mc = open(os.path.join(CFG, 'Session.c14.mc.cfg')).read()
    if quick:
        mc = mc.replace('MaxLen = 6', 'MaxLen = 5')
    r = ctx.tlc('Session.c14.mc', 'Session', mc, timeout=900, coverage=True)
    ctx.extra['design_action_coverage'] = SJ.require_coverage(r, ['ToDict', 'FromDict', 'JsonTrip', 'Save', 'Load', 'Sample', 'Query'], ())
    want = []
    for b in B.all_bindings():
        want.append((b.name, {'setup_past': 1, 'exact_probe': 1}, plans(b, quick)))
    SJ.run_session_jobs(ctx, 'C14', want, 'harness.props.C14', ('FromDict', 'Load'))
    ctx.exhaustive = False


def replay(body):
    return SJ.replay(body)
