"""C01  Gaussian-copula synthetic data keeps schema, marginals and dependence."""
import json
import math
import warnings
from multiprocessing import Pool

import numpy as np
import pandas as pd

from .. import accept as A
from .. import tlc as T

LEVEL = 'exploration'
warnings.simplefilter('ignore')
ALPHA = 1e-12
NAMES = ['t7', 'b2', 'x9', 'a1', 'm5', 'k3']
CFG = ('SPECIFICATION Spec\nCONSTANTS\n  MinCols = %d\n  MaxCols = %d\n  Kinds = {%s}\n  Patterns = {%s}\n  Forms = {%s}\n  RowCounts = {%s}\n'
       'INVARIANT SchemaOK\nINVARIANT Emit\nCHECK_DEADLOCK FALSE\n')
KINDS = ('gaussian', 'gamma', 'beta', 'uniform', 'student', 'bimodal', 'constant', 'timestamp', 'integer', 'micro')
PATTERNS = ('independent', 'equi-positive', 'equi-negative', 'ar', 'near-singular')
FORMS = ('default', 'class', 'name', 'instance', 'dict')
MLE_FAMILIES = ('GammaUnivariate', 'BetaUnivariate', 'StudentTUnivariate', 'LogLaplace')


def law(kind):
    from scipy import stats
    return {'gaussian': stats.norm(10, 3), 'timestamp': stats.norm(1.7e9, 1.0e3),       # large offset, tiny relative spread
            'micro': stats.norm(4.7e-9, 6.0e-10),              # a quantity of the order 1e-9 (capacitances in farad)
            'gamma': stats.gamma(2.0, 1.0, 2.0), 'beta': stats.beta(2.0, 4.0, -1.0, 6.0),
            'uniform': stats.uniform(-3, 8), 'student': stats.t(6, 5, 2)}.get(kind)


def corr(pattern, d):
    R = np.eye(d)
    for i in range(d):
        for j in range(d):
            if i != j:
                R[i, j] = {'independent': 0.0, 'equi-positive': 0.6, 'equi-negative': -0.7 / max(1, d - 1), 'ar': 0.8 ** abs(i - j),
                           'near-singular': 0.99}[pattern]
    return R


CONSTS = (3.25, 0.0, 0, -7.5, 1777026525697216513)      # the last one is a 64-bit identifier: not representable as a double      # the value of a constant column (float zero and integer zero are constants like any other)


def make_table(layout, pattern, n, rs, const=3.25):
    from scipy import stats
    d = len(layout)
    R = corr(pattern, d)
    Z = rs.multivariate_normal(np.zeros(d), R, size=n)
    U = stats.norm.cdf(Z)
    cols = NAMES[:d]
    out = {}
    for j, kind in enumerate(layout):
        if kind == 'constant':
            out[cols[j]] = np.full(n, const)
        elif kind == 'integer':                 # an integer-typed column (discretised gamma, many ties)
            out[cols[j]] = np.rint(stats.gamma(2.0, 0.0, 25.0).ppf(U[:, j])).astype(np.int64)
        elif kind == 'bimodal':
            out[cols[j]] = np.where(U[:, j] < 0.4, stats.norm(0, 1).ppf(U[:, j] / 0.4), stats.norm(8, 1.5).ppf((U[:, j] - 0.4) / 0.6))
        else:
            out[cols[j]] = law(kind).ppf(U[:, j])
    return pd.DataFrame(out, index=rs.permutation(n) + 17), R


def true_cdf(kind, x):
    from scipy import stats
    if kind == 'bimodal':
        return 0.4 * stats.norm(0, 1).cdf(x) + 0.6 * stats.norm(8, 1.5).cdf(x)
    if kind == 'integer':
        return stats.gamma(2.0, 0.0, 25.0).cdf(np.asarray(x, dtype=float) + 0.5)
    return law(kind).cdf(x)


def config(form, layout, cols, variant=0):
    import copulas.univariate as U
    fam = {'gaussian': U.GaussianUnivariate, 'gamma': U.GammaUnivariate, 'beta': U.BetaUnivariate, 'uniform': U.UniformUnivariate,
           'student': U.StudentTUnivariate, 'bimodal': U.GaussianKDE, 'constant': U.GaussianUnivariate, 'timestamp': U.GaussianUnivariate, 'integer': U.GammaUnivariate,
           'micro': U.GaussianUnivariate}
    if form == 'default':
        return {}
    if form == 'class':
        return {'distribution': U.GaussianKDE}
    if form == 'name':
        return {'distribution': 'copulas.univariate.gaussian_kde.GaussianKDE'}
    if form == 'instance':
        # one instance serves as the template of every column; when the whole layout belongs to one closed-form family an instance of it is used
        if variant % 2 and set(layout) <= {'gaussian', 'timestamp', 'constant', 'micro'}:
            return {'distribution': U.GaussianUnivariate()}
        if variant % 2 and set(layout) <= {'uniform', 'constant'}:
            return {'distribution': U.UniformUnivariate()}
        return {'distribution': U.GaussianKDE()}
    if variant % 2:      # template instances as dict values, one instance shared by all the columns of the same family
        inst = {}
        return {'distribution': {c: inst.setdefault(fam[k], fam[k]()) for c, k in list(zip(cols, layout))[:-1]}}
    named = list(zip(cols, layout))[:-1]        # the last column is left to the default
    if variant % 4 >= 2 and len(named) > 1:     # the dict says which family a column gets, in any key order, naming any subset
        named = named[::-1] if len(named) == 2 else named[:0:-1]
    return {'distribution': {c: fam[k] for c, k in named}}


def _run(job):
    from scipy import stats
    from copulas.multivariate import GaussianMultivariate
    case, seed, ntrain, nsample = job
    layout = case['layout']
    d = len(layout)
    cols = NAMES[:d]
    rs = np.random.RandomState(seed)
    const = CONSTS[seed % 5]
    big = bool(case.get('big'))
    if big:                 # a table of several thousand rows
        ntrain = int(case['big'])
    df, R = make_table(layout, case['pattern'], ntrain, rs, const)
    if big or seed % 7 == 3:
        # the rows of a table come in some order - here sorted by the first non-constant column; the fit is a function of the set of rows
        key = [c for c, k in zip(cols, layout) if k != 'constant'][0]
        df = df.sort_values(key, ascending=bool(seed % 2), kind='stable')
    n = case['n'] if case['n'] < 1000 else nsample
    rec = {'exact': [], 'bands': [], 'err': '', 'mle': []}
    stalled = set()
    st = np.random.get_state()
    try:
        np.random.seed(seed)
        m = GaussianMultivariate(random_state=seed % 1000 + 1, **config(case['form'], layout, cols, variant=seed // 2))
        as_array = (seed % 5 == 0 and case['form'] != 'dict')       # every fifth request trains on a plain 2-D array: columns are 0..d-1
        if seed % 3 == 1 and not as_array:
            # a third of the requests reuse an instance that was already fitted to, and sampled from, a table with the opposite
            # dependence and other marginals: the property speaks of the state after the (last) fit
            old = df.iloc[::-1].reset_index(drop=True).copy()
            for j, c in enumerate(cols):
                if layout[j] != 'constant':
                    v = np.sort(old[c].to_numpy(dtype=float))
                    old[c] = (v if j % 2 else v[::-1]) * 0.5 + 3.0
            if seed % 4 in (1, 2):          # ... and one of its columns was the constant 0 where the new table varies
                free = [c for j, c in enumerate(cols) if layout[j] != 'constant']
                if free:
                    old[free[seed % len(free)]] = 0 if seed % 8 < 4 else 0.0
            if seed % 2:          # the earlier table had its columns in another order
                old = old[list(old.columns)[::-1]]
            m.fit(old)
            m.sample(3)
        if as_array:
            m.fit(df.to_numpy(dtype=float).copy())
            cols = list(range(d))
            df.columns = cols
        else:
            m.fit(df.copy())
        s = m.sample(n)
        if len(s) != n:
            rec['exact'].append('row-count')
        if list(s.columns) != cols:
            rec['exact'].append('columns-not-the-training-columns-in-order')
            return rec
        # missing = NaN.  +-inf can legitimately occur: the KDE percent point maps probabilities within 1.2e-7 of 0 / 1 to -+inf
        # (about one value in 8 million draws); they are counted, not flagged
        if s.isna().any().any():
            rec['exact'].append('missing-values')
        rec['infinite'] = int(np.isinf(s.to_numpy(dtype=float)).sum())
        for j, kind in enumerate(layout):
            if kind == 'constant' and isinstance(const, int) and abs(const) > 2 ** 53:
                if [int(v) if float(v).is_integer() else v for v in s[cols[j]].tolist()] != [const] * n:        # exact integers, no float comparison
                    rec['exact'].append('constant-column-not-reproduced')
            elif kind == 'constant' and not np.all(s[cols[j]].to_numpy() == const):
                rec['exact'].append('constant-column-not-reproduced')
        if n < 1000 or rec['exact']:
            return rec
        eps = math.sqrt(math.log(2.0 / ALPHA) / (2.0 * n))
        C = m.correlation.to_numpy()
        for j, kind in enumerate(layout):
            if kind == 'constant':
                continue
            x = np.sort(s[cols[j]].to_numpy())
            F = np.asarray(m.univariates[j].cdf(x.copy()), dtype=float)
            ks = max(np.max(np.abs(F - np.arange(1, n + 1) / n)), np.max(np.abs(F - np.arange(0, n) / n)))
            rec['bands'].append(('sampled-column-not-distributed-as-its-fitted-marginal', kind, float(ks), 0.0, eps + 0.01))
            # recovery of the generating marginal (n_train rows): sampling error + smoothing bias of the estimator
            if case['form'] in ('default', 'dict') or True:
                g = np.sort(df[cols[j]].to_numpy())
                Ff = np.asarray(m.univariates[j].cdf(g.copy()), dtype=float)
                dist = float(np.max(np.abs(Ff - true_cdf(kind, g))))
                band = math.sqrt(math.log(2.0 / ALPHA) / (2.0 * ntrain)) + 0.06
                u = m.univariates[j]
                if type(getattr(u, '_instance', None) or u).__name__ in MLE_FAMILIES:
                    # C04 grants the families delegated to scipy's generic optimiser a share of data sets on which the search
                    # stalls: their recovery is judged as a share over the run, and the dependent clauses of a stalled column are skipped
                    rec['mle'].append((kind, bool(dist <= band)))
                    if dist > band:
                        stalled.add(j)
                else:
                    rec['bands'].append(('fitted-marginal-far-from-generating-marginal', kind, dist, 0.0, band))
        tb = math.sqrt(2.0 * math.log(2.0 / ALPHA) / (n // 2))
        for i in range(d):
            for j in range(i + 1, d):
                if layout[i] == 'constant' or layout[j] == 'constant':
                    continue
                if i in stalled or j in stalled:
                    continue
                rho = C[i, j] / math.sqrt(C[i, i] * C[j, j])
                t = float(stats.kendalltau(s[cols[i]], s[cols[j]])[0])
                rec['bands'].append(('rank-dependence-of-sample-differs-from-fitted-correlation', '%s-%s' % (layout[i], layout[j]), t,
                                     2.0 / math.pi * math.asin(max(-1.0, min(1.0, rho))), tb))
                # recovery of the generating correlation (rank-based comparison is marginal-free)
                rec['bands'].append(('fitted-correlation-far-from-generating-correlation', '%s-%s' % (layout[i], layout[j]), rho, R[i, j],
                                     8.0 * (1 - R[i, j] ** 2) / math.sqrt(ntrain) + 0.1))
    except Exception as ex:
        import traceback
        rec['err'] = type(ex).__name__ + ' ' + traceback.format_exc(limit=-1)[-200:]
    finally:
        np.random.set_state(st)
    return rec


def run(ctx):
    quick = ctx.tier == 'quick'
    ntrain, nsample = (500, 4000) if quick else (1000, 10000)
    ctx.rule = ('TLC (GaussApi) enumerates / samples requests: 2..%d columns x column kinds (gaussian, gamma, beta, uniform, student-t, bimodal, '
                'constant, large-offset "timestamp") x dependence pattern (independent, equicorrelated +/-, AR(0.8), near-singular 0.99) x configuration form (default, class, '
                'qualified name, instance, per-column dict with a default column) x rows to sample {1, 7, N=%d}; training tables (%d rows) are drawn '
                'by the harness from exactly that Gaussian copula; schema clauses are exact (SchemaOK on the model, compared on the real sample); '
                'TLC (Acceptance) judges: each sampled column vs its fitted marginal (DKW), sample Kendall tau of each pair vs (2/pi) asin(rho_fitted) '
                '(Hoeffding), fitted marginal vs generating marginal, fitted vs generating correlation.  non-trivial = every request; distinct by content')\
        % (3 if quick else 6, nsample, ntrain)
    ctx.assumptions = ['bands at level 1e-12 per comparison; recovery bands include the smoothing bias of KDE marginals (0.06) and 0.1 for correlations',
                       'columns whose fitted marginal is a family delegated to scipy\'s generic MLE (Gamma, Beta, StudentT, LogLaplace) are judged as in C04: '
                       'the generating marginal must be recovered for >= 60 % of them over the run (>= 20 such columns), and the correlation clauses of a column '
                       'whose search stalled are skipped']
    def cfg(mincols, maxcols, kinds, patterns, forms, rows):
        q = lambda xs: ', '.join('"%s"' % x for x in xs)
        return CFG % (mincols, maxcols, q(kinds), q(patterns), q(forms), ', '.join(str(r) for r in rows))
    cases = {}
    # exhaustive small part: two columns, four kinds, all patterns and forms, large sample
    r = ctx.tlc('GaussApi.exhaustive', 'GaussApi', cfg(2, 2, ('gaussian', 'gamma', 'constant', 'timestamp'), PATTERNS[:4], FORMS, (1, 1000)), workers=1, timeout=600)
    for c in r.tagged('CASE'):
        cases[json.dumps(c[0], sort_keys=True)] = c[0]
    # simulated part over the full product
    r = T.run('GaussApi', cfg(2, 3 if quick else 6, KINDS, PATTERNS, FORMS, (1, 7, 1000)), workers=1, simulate='num=%d' % (120 if quick else 500),
              depth=12, seed=ctx.seed + 21, timeout=600)
    ctx.note_tlc('GaussApi.simulate', r)
    for c in r.tagged('CASE'):
        cases[json.dumps(c[0], sort_keys=True)] = c[0]
    clist = [cases[k] for k in sorted(cases)]
    for c in clist:
        c['layout'] = list(c['layout'])
    # three requests with tables of several thousand rows that arrive sorted by their first column (closed-form marginals, so the
    # size costs little): nothing in the property depends on the number or on the order of the rows
    for lay, pat, form, rows in ((['gaussian', 'gaussian', 'gaussian'], 'ar', 'instance', 6000 if quick else 24000),
                                 (['gaussian', 'uniform', 'constant'], 'equi-positive', 'dict', 5000 if quick else 12000),
                                 (['timestamp', 'gaussian'], 'equi-negative', 'class', 6500 if quick else 9100)):        # KDE marginals on several thousand rows
        clist.append({'layout': lay, 'pattern': pat, 'form': form, 'n': 1000, 'big': rows})
    # and three requests with four and five columns, one of them constant, under the AR(0.8) pattern (all pairwise correlations differ)
    for lay, form in ((['micro', 'gaussian'], 'class'), (['gaussian', 'micro', 'uniform'], 'name'), (['micro', 'micro'], 'default'),
                      (['gaussian', 'constant', 'uniform', 'gaussian', 'gamma'], 'dict'), (['timestamp', 'gaussian', 'constant', 'gaussian'], 'instance'),
                      (['uniform', 'gaussian', 'gaussian', 'constant'], 'class')):
        clist.append({'layout': lay, 'pattern': 'ar', 'form': form, 'n': 1000})
    jobs = [(c, ctx.seed * 13 + i + (1 if c.get('big') and ((ctx.seed * 13 + i) // 2) % 2 == 0 else 0) * 2, ntrain, nsample) for i, c in enumerate(clist)]
    jobs_sorted = sorted(range(len(jobs)), key=lambda i: -(len(jobs[i][0]['layout']) * (3 if jobs[i][0]['form'] in ('default', 'dict') else 1)))
    with Pool(16) as pool:
        res_sorted = pool.map(_run, [jobs[i] for i in jobs_sorted], chunksize=1)
    res = [None] * len(jobs)
    for i, r_ in zip(jobs_sorted, res_sorted):
        res[i] = r_
    recs, meta = [], []
    for c, r_ in zip(clist, res):
        key = '%s|%s|%s|n=%d%s' % ('+'.join(c['layout']), c['pattern'], c['form'], c['n'], '|rows=%d,sorted' % c['big'] if c.get('big') else '')
        ctx.case(key)
        if r_['err']:
            ctx.violation('C01|%s|raised-%s|%s' % (c['form'], r_['err'].split(' ')[0], c['pattern']), 'fit/sample raised %s for %s' % (r_['err'], key), c)
        for e in r_['exact']:
            ctx.violation('C01|%s|%s|%s' % (c['form'], e, 'n=%s' % ('N' if c['n'] >= 1000 else c['n'])), '%s for %s' % (e, key), c)
        for what, detail, obs, exp, band in r_['bands']:
            recs.append(A.band(key + '|' + what + '|' + detail, obs, exp, band))
            meta.append((c, what, detail, obs, exp, band))
    mle = [x for r_ in res for x in r_.get('mle', [])]
    ctx.extra['scipy_mle_columns_recovered'] = '%d/%d' % (sum(ok for _, ok in mle), len(mle))
    if len(mle) >= 20:
        recs.append(A.count('columns fitted by scipy\'s generic MLE: generating marginal recovered', sum(ok for _, ok in mle), len(mle), 60))
        meta.append(({'form': 'any', 'pattern': 'any'}, 'too-few-scipy-mle-marginals-recovered', 'all', sum(ok for _, ok in mle) / len(mle), 0.6, 0.0))
    for i in A.evaluate(ctx, 'Acceptance.gaussian-copula', recs):
        c, what, detail, obs, exp, band = meta[i]
        ctx.violation('C01|%s|%s|%s|%s' % (c['form'], what, detail, c['pattern']),
                      '%s (%s): observed %.4f expected %.4f band %.4f; request %s' % (what, detail, obs, exp, band, json.dumps(c)), c)
    ctx.extra['max_statistic_over_band'] = max([abs(o - e) / b for (_, _, _, o, e, b) in meta if b] or [0])
    ctx.extra['requests'] = len(clist)
    ctx.extra['infinite_values_in_samples'] = sum(r_.get('infinite', 0) for r_ in res)
    ctx.sample(clist[len(clist) // 2])
    ctx.traces += len(clist)
    ctx.exhaustive = False
