"""Observation and driving of the real vine code (shared by C16, C17)."""
import math
import warnings

import numpy as np
import pandas as pd

from .bindings import poison

warnings.simplefilter('ignore')

FAMS = {'CLAYTON': 0, 'FRANK': 1, 'GUMBEL': 2}


def fam_name(e):
    n = e.name
    return n.name if hasattr(n, 'name') else str(n)


def admissible(e):
    """Admissible set as the families declare it: Clayton [0, inf], Gumbel [1, inf], Frank != 0."""
    th = e.theta
    fam = fam_name(e)
    if fam not in FAMS or th is None:
        return False
    th = float(th)
    if math.isnan(th):
        return False
    if fam == 'CLAYTON':
        return th >= 0
    if fam == 'GUMBEL':
        return th >= 1
    return th != 0


def structure(trees):
    """trees: list of Tree objects -> (list of list of edge dicts with 1-based parent positions, admissible flags)."""
    out, adm = [], []
    prev = None
    for t in trees:
        es, fl = [], []
        for e in t.edges:
            if e.parents is None:
                pa = [0, 0]
            else:
                pa = []
                for p in e.parents:
                    idx = [i for i, q in enumerate(prev.edges) if q is p]
                    if not idx:      # restored objects: parents are copies; match by content
                        idx = [i for i, q in enumerate(prev.edges) if (q.L, q.R, set(q.D)) == (p.L, p.R, set(p.D))]
                    pa.append(idx[0] + 1 if idx else 0)
            es.append({'L': int(e.L), 'R': int(e.R), 'D': sorted(int(x) for x in e.D), 'pa': pa})
            fl.append(bool(admissible(e)))
        out.append(es)
        adm.append(fl)
        prev = t
    return out, adm


def rank_matrix(absw, tol=1e-9):
    """Integer ranks of a symmetric weight matrix (ties within tol share a rank); returned as a full
    list-of-lists (1-based use in TLA+ through w[a+1][b+1] with a < b)."""
    n = absw.shape[0]
    vals = sorted({absw[i, j] for i in range(n) for j in range(i + 1, n)})
    groups = []
    for v in vals:
        if groups and abs(v - groups[-1][-1]) <= tol:
            groups[-1].append(v)
        else:
            groups.append([v])
    def rk(v):
        for r, g in enumerate(groups):
            if g[0] - tol <= v <= g[-1] + tol:
                return r
        return -1
    return [[(rk(absw[min(i, j), max(i, j)]) if i != j else 0) for j in range(n)] for i in range(n)]


def kendall_abs(df):
    from scipy import stats
    n = df.shape[1]
    a = np.zeros((n, n))
    for i in range(n):
        for j in range(i + 1, n):
            t = stats.kendalltau(df.iloc[:, i], df.iloc[:, j])[0]
            a[i, j] = a[j, i] = 0.0 if np.isnan(t) else abs(t)
    return a


# ---- random tables -------------------------------------------------------------------------------
PATTERNS = ('indep', 'chain', 'factor', 'blocks', 'mixed-sign', 'ties', 'monotone', 'near-dup', 'against-trend')


def random_table(rs, ncol, pattern, nrow=None):
    n = nrow or int(rs.choice([30, 45, 80]))
    z = rs.normal(size=(n, ncol))
    if pattern == 'chain':
        for j in range(1, ncol):
            z[:, j] = 0.7 * z[:, j - 1] + 0.7 * z[:, j]
    elif pattern == 'factor':
        f = rs.normal(size=n)
        for j in range(ncol):
            z[:, j] = rs.uniform(0.3, 0.9) * f + 0.6 * z[:, j]
    elif pattern == 'blocks':
        for j in range(1, ncol, 2):
            z[:, j] = 0.85 * z[:, j - 1] + 0.5 * z[:, j]
    elif pattern == 'mixed-sign':
        f = rs.normal(size=n)
        for j in range(ncol):
            z[:, j] = (-1) ** j * rs.uniform(0.4, 0.9) * f + 0.6 * z[:, j]
    elif pattern == 'ties':
        f = rs.normal(size=n)
        for j in range(ncol):
            z[:, j] = np.round(0.7 * f + 0.7 * z[:, j], 0 if j % 2 else 1)
        z += 0.0
    elif pattern == 'monotone':
        f = rs.normal(size=n)
        for j in range(ncol):
            z[:, j] = 0.8 * f + 0.5 * z[:, j]
        z[:, 0] = np.exp(z[:, 0])
        if ncol > 2:
            z[:, 2] = z[:, 2] ** 3
    elif pattern == 'near-dup':
        for j in range(1, ncol):
            z[:, j] = z[:, 0] * (1 if j % 2 else -1) + rs.uniform(0.05, 0.8) * z[:, j]
    elif pattern == 'against-trend':       # very strong (alternating-sign) dependence and one row far against it: h-functions reach 0 / 1
        for j in range(1, ncol):
            z[:, j] = z[:, 0] * (-1 if j % 2 else 1) + 0.05 * z[:, j]
        z[0, :] = 3.0
    elif pattern == 'clayton-strong':      # strong lower-tail dependence (an exchangeable Clayton copula, theta 7..11, by Marshall-Olkin)
        from scipy import stats
        th = rs.uniform(7.0, 11.0)
        frailty = rs.gamma(1.0 / th, 1.0, size=n)
        u = (1.0 + rs.exponential(size=(n, ncol)) / frailty[:, None]) ** (-1.0 / th)
        z = stats.norm.ppf(np.clip(u, 1e-12, 1 - 1e-12))
    elif pattern == 'near-tie':            # two pairs whose Kendall taus differ by a single pair of rows (2 / C(n, 2), about 3e-6 for 1100 rows)
        n = max(n, 1100)
        z = rs.normal(size=(n, ncol))
        z[:, 1] = 0.7 * z[:, 0] + 0.7 * z[:, 1]
        for j in range(3, ncol):
            z[:, j] = 0.3 * z[:, 0] + z[:, j]
        z[:, 2] = z[:, 1]
        order = np.argsort(z[:, 1])
        for a, b in zip(order[:-1], order[1:]):          # neighbours in the second column that the first column orders the other way
            if z[a, 0] > z[b, 0]:
                z[a, 2], z[b, 2] = z[b, 1], z[a, 1]      # the third column agrees with the first on this one pair more than the second does
                break
    elif pattern == 'exact-monotone':      # one column is an increasing function of another (|Kendall tau| exactly 1), the rest hang on loosely
        for j in range(2, ncol):
            z[:, j] = 0.5 * z[:, 0] + 0.8 * z[:, j]
        z[:, 1] = np.exp(z[:, 0]) if ncol % 2 else 3.0 * z[:, 0] + 7.0
    cols = ['v%d' % i for i in range(ncol)]
    return pd.DataFrame(z, columns=cols, index=rs.permutation(n) + 3)       # the row index is not 0..n-1


def u_matrix_of(df):
    from copulas.univariate import GaussianKDE
    u = np.empty(df.shape)
    for i, c in enumerate(df):
        k = GaussianKDE()
        k.fit(df[c])
        u[:, i] = k.cumulative_distribution(df[c])
    return u


class time_limit(object):
    """a wall-clock limit for one call of the library (worker processes run it in their main thread): a fit that does not come
    back is reported as a TimeoutError of that fit instead of hanging the check"""

    def __init__(self, seconds):
        self.seconds = seconds

    def __enter__(self):
        import signal

        def boom(signum, frame):
            raise TimeoutError('the call did not return within %d s' % self.seconds)
        try:
            self.old = signal.signal(signal.SIGALRM, boom)
            signal.alarm(self.seconds)
        except ValueError:          # not in the main thread: no limit
            self.old = None
        return self

    def __exit__(self, *exc):
        import signal
        if self.old is not None:
            signal.alarm(0)
            signal.signal(signal.SIGALRM, self.old)
        return False


def fit_vine(df, vtype, trunc, past=None):
    """fit a vine; with `past` (a table) the instance is first fitted to that table with another truncation, sampled and asked for a
    likelihood: the properties speak of the model after the (last) fit"""
    from copulas.multivariate import VineCopula
    k = df.shape[1]
    poison([(j, j) for j in range(1, k + 1)], 0.0)
    m = VineCopula(vtype)
    if past is not None:
        try:
            with time_limit(90):
                m.fit(past, truncated=max(1, past.shape[1] - 1))
                st = np.random.get_state()
                m.sample(1)
                np.random.set_state(st)
                m.get_likelihood(np.full((1, past.shape[1]), 0.4))
        except Exception:
            pass
    if past is not None and past.shape == df.shape and list(past.columns) == list(df.columns):
        # the caller's table object was fitted by another vine earlier and has been edited in place since
        new = df.copy()
        try:
            df.iloc[:, :] = past.to_numpy()
            with time_limit(90):
                VineCopula(vtype).fit(df, truncated=trunc)
        except Exception:
            pass
        for c in df.columns:
            df[c] = new[c].to_numpy()
    with time_limit(90):
        m.fit(df, truncated=trunc)
    return m


def past_table(rs, ncol, i):
    """the table of an instance's previous life: another dependence pattern and, every second time, another number of columns"""
    k = ncol if i % 2 else (ncol + 1 if ncol < 4 else ncol - 1)
    return random_table(rs, max(2, k), PATTERNS[(i + 3) % 4], nrow=30)


def same_shape_past(rs, df, i):
    """an earlier content of the very same table object: same labels and shape, another dependence pattern"""
    old = random_table(rs, df.shape[1], PATTERNS[(i + 1) % 4], nrow=len(df))
    old.columns = df.columns
    old.index = df.index
    return old


# ---- driving the tree builders with chosen dependence orderings ----------------------------------
def forced_build(vtype, spec_trees, u_matrix, rs, trunc=None):
    """Build real Tree objects level by level, feeding tau matrices that make the unchanged code
    follow the ordering of `spec_trees` (a complete vine emitted by TLC).  Returns (list of Tree, w1)
    where w1 is the |tau| matrix given to the first tree."""
    from copulas.multivariate.tree import get_tree
    n = u_matrix.shape[1]
    depth = len(spec_trees)
    trees = []
    w1 = None
    for lvl in range(depth):
        nn = n - lvl
        tau = np.zeros((nn, nn))
        mags = {}
        order = spec_trees[lvl]
        # chosen pairs get decreasing large magnitudes in insertion order, the others small distinct ones
        hi = np.linspace(0.95, 0.5, max(1, len(order)))
        small = iter(np.linspace(0.3, 0.01, nn * nn))
        for pos, e in enumerate(order):
            if lvl == 0:
                a, b = e['L'], e['R']
            else:
                a, b = e['pa'][0] - 1, e['pa'][1] - 1
            mags[(min(a, b), max(a, b))] = hi[pos]
        for i in range(nn):
            for j in range(i + 1, nn):
                v = mags.get((i, j))
                if v is None:
                    v = next(small)
                if vtype != 'direct' and rs.uniform() < 0.35:
                    v = -v
                tau[i, j] = tau[j, i] = v
        np.fill_diagonal(tau, 1.0)
        if vtype == 'direct' and lvl == 0:
            # the direct builder ranks by signed tau: random symmetric matrix, all paths reachable
            r = rs.uniform(-0.9, 0.9, size=(nn, nn))
            tau = (r + r.T) / 2
            np.fill_diagonal(tau, 1.0)
        if lvl == 0:
            w1 = np.abs(tau.copy())
        t = get_tree(vtype)
        t.fit(lvl, nn, tau.copy(), u_matrix if lvl == 0 else trees[-1])
        trees.append(t)
        if lvl + 1 < depth:
            t._get_constraints()
    return trees, w1
