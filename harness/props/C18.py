"""C18  Vectorised root finders return a bracketed root for every lane."""
import json
import os

import numpy as np

from .. import tlc as T

LEVEL = 'model_checking'


# ---------------------------------------------------------------------------------------------------
# bisect, exactly: TLC enumerates cases and predicts every guess; the real loop must reproduce them
# ---------------------------------------------------------------------------------------------------
def bisect_cfg(lanes, brackets, zeros, tolw, maxiter, emit=True):
    return ('SPECIFICATION Spec\nCONSTANTS\n  Lanes = {%s}\n  TolW = %d\n  MaxIter = %d\n'
            % (', '.join(str(i) for i in range(1, lanes + 1)), tolw, maxiter) +
            'INVARIANT Ordered\nINVARIANT Nested\nINVARIANT RootBracketed\nINVARIANT Converged\nINVARIANT LaneIndependent\n'
            'INVARIANT InvalidRejected\nINVARIANT Exact\n' + ('INVARIANT Emit\n' if emit else '') + 'CHECK_DEADLOCK FALSE\n')


_PF = []


def params_file(brackets, zeros):
    wd = T.workdir()
    _PF.append(wd)
    p = os.path.join(wd, 'bisect_params.json')
    T.dump_json(p, {'brackets': [list(b) for b in brackets], 'zeros': [list(z) for z in zeros]})
    return p


def make_f(z1, z2, fine):
    """monotone function with zero set [z1/2, z2/2] fine units (vectorised over lanes)"""
    a = np.asarray(z1, dtype=float) / (2.0 * fine)
    b = np.asarray(z2, dtype=float) / (2.0 * fine)

    def f(x):
        x = np.asarray(x, dtype=float)
        return np.where(x < a, x - a, np.where(x > b, x - b, 0.0))
    return f


def replay_bisect(case, fine, tol, maxiter, use_defaults=False):
    """returns list of problems (strings) for one TLC-predicted case"""
    from copulas.optimize import bisect
    lanes = sorted(int(k) for k in (case['lo0'].keys() if isinstance(case['lo0'], dict) else range(1, len(case['lo0']) + 1)))

    def vec(v):
        return [v[k] for k in lanes] if isinstance(v, dict) else list(v)
    lo0, hi0 = np.array(vec(case['lo0']), dtype=float) / fine, np.array(vec(case['hi0']), dtype=float) / fine
    zs = vec(case['zs'])
    f0 = make_f([z[0] for z in zs], [z[1] for z in zs], fine)
    seen = []

    def f(x):
        seen.append(np.array(x, dtype=float, copy=True))
        return f0(x)
    probs = []
    try:
        if use_defaults:
            res = bisect(f, lo0.copy(), hi0.copy())
        else:
            res = bisect(f, lo0.copy(), hi0.copy(), tol=tol, maxiter=maxiter)
    except AssertionError:
        return [] if case['phase'] == 'rejected' else ['valid-bracket-rejected']
    except Exception as ex:
        return ['raised-' + type(ex).__name__]
    if case['phase'] == 'rejected':
        return ['invalid-bracket-accepted']
    # contract (C18), evaluated exactly: dyadic numbers are exact doubles
    res = np.asarray(res, dtype=float)
    z1 = np.array([z[0] for z in zs], dtype=float) / (2.0 * fine)
    z2 = np.array([z[1] for z in zs], dtype=float) / (2.0 * fine)
    if not np.all((res >= lo0) & (res <= hi0)):
        probs.append('result-outside-bracket')
    dist = np.where(res < z1, z1 - res, np.where(res > z2, res - z2, 0.0))
    width_after = (hi0 - lo0) / 2.0 ** maxiter
    if np.all(width_after < tol) and not np.all(dist <= tol):
        probs.append('result-not-within-tolerance-of-a-root')
    # refinement of the exact model (notes, not violations: another bisection with the same contract is allowed)
    guesses = seen[2:]
    exp = [np.array(vec(g), dtype=float) / fine for g in case['guesses']]
    if len(guesses) != len(exp):
        probs.append('note:iteration-count-differs')
    elif any(not np.array_equal(g, e) for g, e in zip(guesses, exp)):
        probs.append('note:guess-differs')
    expres = np.array(vec(case['result2']), dtype=float) / (2.0 * fine)
    if not np.array_equal(res, expres):
        probs.append('note:result-differs-from-model')
    return probs


# ---------------------------------------------------------------------------------------------------
# contract on a generated function family (both finders) + order-encoded traces for Bracketing
# ---------------------------------------------------------------------------------------------------
KINDS = ('linear', 'cubic', 'tanh', 'exp', 'endlo', 'endhi', 'steep', 'shallow')


def family(rs, n):
    """n lanes of mixed difficulty: returns (f, xmin, xmax, root, kinds)"""
    kinds = rs.choice(len(KINDS), size=n)
    lo = rs.uniform(-50, 50, size=n)
    # one lane in seven lives far from the origin (roots of magnitude 1e6 .. 1e10 next to roots of magnitude 1): "as if it were alone"
    lo = lo + np.where(rs.uniform(size=n) < 0.15, rs.choice([-1.0, 1.0], size=n) * 10.0 ** rs.uniform(6, 10, size=n), 0.0)
    w = 10.0 ** rs.uniform(-2, 3, size=n)
    hi = lo + w
    root = lo + w * rs.uniform(0.02, 0.98, size=n)
    root = np.where(kinds == 4, lo, root)
    root = np.where(kinds == 5, hi, root)
    k = np.ones(n)
    k = np.where(kinds == 6, 10.0 ** rs.uniform(3, 6, size=n), k)
    k = np.where(kinds == 7, 10.0 ** rs.uniform(-6, -3, size=n), k)
    kt = 10.0 ** rs.uniform(-1, 2, size=n) / w

    def f(x, sel=slice(None)):
        x = np.asarray(x, dtype=float)
        d = x - root[sel]
        kk, kd, kts = k[sel], kinds[sel], kt[sel]
        with np.errstate(all='ignore'):
            out = kk * d
            out = np.where(kd == 1, d ** 3, out)
            out = np.where(kd == 2, np.tanh(kts * d), out)
            out = np.where(kd == 3, np.expm1(np.clip(kts * d, -700, 700)), out)
        return out
    return f, lo, hi, root, kinds


def order_encode(lane_x, lane_f, lo, hi, flo, fhi, ret):
    xs = sorted(set([lo, hi, ret] + list(lane_x)))
    rx = {v: i for i, v in enumerate(xs)}
    ms = sorted(set([abs(flo), abs(fhi)] + [abs(v) for v in lane_f]))
    rm = {v: i for i, v in enumerate(ms)}

    def pt(x, fv):
        return {'x': rx[x], 's': int(np.sign(fv)), 'm': rm[abs(fv)]}
    return pt(lo, flo), pt(hi, fhi), [pt(x, fv) for x, fv in zip(lane_x, lane_f)], rx[ret]


def run_family(alg, rs, n, nlog):
    from copulas import optimize
    f, lo, hi, root, kinds = family(rs, n)
    calls = []

    def g(x):
        v = f(x)
        calls.append((np.array(x, dtype=float, copy=True), np.array(v, dtype=float, copy=True)))
        return v
    recs = []
    err = ''
    try:
        res = np.asarray(getattr(optimize, alg)(g, lo.copy(), hi.copy()), dtype=float)
    except Exception as ex:
        err = 'raised-' + type(ex).__name__
        res = np.full(n, np.nan)
    width = hi - lo
    tolx = np.full(n, 1e-8) if alg == 'bisect' else 1e-9 * width
    with np.errstate(all='ignore'):
        fres = f(res)
    inside = (res >= lo) & (res <= hi)
    accurate = np.abs(res - root) <= tolx + 4 * np.finfo(float).eps * np.maximum(np.abs(root), np.abs(res))
    exactzero = (fres == 0.0) if alg == 'chandrupatla' else np.zeros(n, dtype=bool)
    logged = set(rs.choice(n, size=min(n, nlog), replace=False).tolist())
    for i in range(n):
        rec = {'alg': alg, 'kind': KINDS[kinds[i]], 'err': err, 'inside': bool(inside[i]), 'accurate': bool(accurate[i]),
               'exactzero': bool(exactzero[i]), 'n': n}
        if i in logged and not err and alg == 'chandrupatla' and len(calls) >= 2:
            # chandrupatla evaluates f(xmax), f(xmin), then one point per iteration
            xs = [float(c[0][i]) for c in calls[2:]]
            fs = [float(c[1][i]) for c in calls[2:]]
            plo, phi, ev, ret = order_encode(xs, fs, float(lo[i]), float(hi[i]), float(calls[1][1][i]), float(calls[0][1][i]), float(res[i]))
            rec.update({'lo': plo, 'hi': phi, 'evals': ev, 'ret': ret})
        else:
            rec.update({'lo': {'x': 0, 's': -1, 'm': 1}, 'hi': {'x': 1, 's': 1, 'm': 1}, 'evals': [], 'ret': -1})
        recs.append(rec)
    return recs


def run(ctx):
    quick = ctx.tier == 'quick'
    ctx.rule = ('(a) Bisect.tla: TLC enumerates every case (1-2 lanes, dyadic brackets, root / flat zero interval anywhere incl. at a '
                'bracket end and outside the bracket, explicit tolerance and iteration cap, and the defaults on a unit bracket), '
                'checks the C18 clauses on the model and predicts every midpoint; the real bisect must meet the contract exactly (dyadic arithmetic) on every case '
                'and reject exactly the invalid brackets; agreement of every guess vector / iteration count / result with the model is recorded. (b) Bracketing.tla: bracketing '
                'invariants model-checked for every choice sequence on a grid; real chandrupatla / bisect runs on a generated family '
                '(linear, cubic flat root, tanh, exponential, root at either end, slopes over 12 decades; batches of 1..1000 lanes of '
                'mixed difficulty; scalar calls) are checked against the contract by TLC, a sample of lanes with their order-encoded '
                'evaluation traces.  non-trivial = a valid-bracket case with >= 1 iteration; distinct by case content')
    ctx.assumptions = ['dyadic positions are exact in binary floating point (checked: the harness compares with array_equal)',
                       'contract tolerances: bisect 1e-8 absolute, chandrupatla 1e-9 of the bracket width or f(x) == 0, plus 4 ulp',
                       'refinement notes (returned value = better bracket end of the replayed bookkeeping, evaluation points inside the '
                       'bracket) are recorded in the evidence but are not C18 violations']
    # ---- (a) bisect ---------------------------------------------------------------------------
    MI = 6
    u = 2 ** MI
    brackets = [(0, u), (0, 4 * u), (u, 3 * u), (2 * u, 4 * u)]
    zeros = [(1, 1), (2 * u - 1, 2 * u - 1), (2 * u, 2 * u), (u + 1, u + 1), (3 * u + 7, 3 * u + 7), (4 * u, 4 * u), (0, 0),
             (5 * u, 5 * u), (8 * u, 8 * u), (2 * u, 3 * u), (u - 8, u + 8), (6 * u + 1, 6 * u + 1), (-3, -3), (8 * u + 5, 8 * u + 5)]
    plans = [('grid-1lane', 1, brackets, zeros, 3, MI, 2.0 ** -4 if False else None),
             ('grid-2lane', 2, brackets[:3], zeros[:9] + zeros[12:], 3, MI, None)]
    if not quick:
        plans.append(('grid-3lane', 3, brackets[:2], zeros[:5] + zeros[12:13], 1, MI, None))
    nb = 0
    bnotes = {}
    for name, lanes, br, zs, tolw, mi, _ in plans:
        r = ctx.tlc('Bisect.' + name, 'Bisect', bisect_cfg(lanes, br, zs, tolw, mi), workers=1, timeout=900,
                    env={'BISECT_PARAMS': params_file(br, zs)})
        fine = float(u)          # one coarse unit = 1.0 real
        tol = (tolw + 1) / fine
        for c in r.tagged('CASE'):
            case = c[0]
            probs = replay_bisect(case, fine, tol, mi)
            nb += 1
            ctx.case('bisect|' + json.dumps(case, sort_keys=True), nontrivial=(case['phase'] == 'done' and case['it'] >= 1))
            if nb % 400 == 1:
                ctx.sample({'bisect_case': {k: case[k] for k in ('lo0', 'hi0', 'zs', 'phase', 'it', 'result2')}})
            for p in probs:
                if p.startswith('note:'):
                    bnotes[p] = bnotes.get(p, 0) + 1
                    continue
                ctx.violation('C18|bisect|%s|%s' % (name, p.split('(')[0]), 'bisect: %s on TLC case %s' % (p, json.dumps(case)[:300]),
                              {'case': case, 'fine': fine, 'tol': tol, 'maxiter': mi})
    # defaults (tol = 1e-8, maxiter = 50) on the unit bracket: fine = 2^29, stops when width <= 5 fine units (< 1e-8)
    F = 2 ** 29
    zd = [(2 * p + 1, 2 * p + 1) for p in (1, 123456789, 2 ** 27, 2 ** 28 - 3)] + [(0, 0), (2 ** 28, 2 ** 28), (2 ** 29 - 2 ** 20, 2 ** 29 + 2 ** 20), (2 ** 30, 2 ** 30)]
    r = ctx.tlc('Bisect.defaults', 'Bisect', bisect_cfg(2, [(0, F)], zd, 5, 50), workers=1, timeout=900,
                env={'BISECT_PARAMS': params_file([(0, F)], zd)})
    for c in r.tagged('CASE'):
        case = c[0]
        nb += 1
        ctx.case('bisect-defaults|' + json.dumps(case, sort_keys=True))
        for p in replay_bisect(case, float(F), 1e-8, 50, use_defaults=True):
            if p.startswith('note:'):
                bnotes[p] = bnotes.get(p, 0) + 1
                continue
            ctx.violation('C18|bisect|defaults|%s' % p.split('(')[0], 'bisect with default tol/maxiter: %s' % p, {'case': case, 'fine': F})
    ctx.traces += nb
    ctx.extra['bisect_cases_replayed'] = nb
    ctx.extra['bisect_model_refinement_notes'] = bnotes
    # ---- (b) Bracketing design + contract on the family ------------------------------------------
    cfgB = ('SPECIFICATION Spec\nCONSTANTS\n  G = %d\n  MaxSteps = %d\nINVARIANT BracketSign\nINVARIANT PointsInside\nINVARIANT XmIsBetterEnd\n'
            'PROPERTY LiveStepsImprove\nPROPERTY LiveBracketShrinks\nCHECK_DEADLOCK FALSE\n')
    wd = T.workdir()
    try:
        empty = os.path.join(wd, 'empty.json')
        T.dump_json(empty, [])
        # the safety clauses of the bisection loop as an inductive invariant over unbounded integers (Apalache, spec/apalache/BisectInd.tla)
        from .. import apalache as AP
        ind = AP.inductive('BisectInd', prop='Safe', broken_next='NextWrong',
                           extra={'progress (one pass halves every width)': ['--init=IndInit', '--inv=Halves', '--length=1'],
                                  'non-vacuity (a stronger halving claim must fail)': ['--init=IndInit', '--inv=HalvesTooStrong', '--length=1']})
        ctx.extra['apalache_inductive_bisect'] = ind
        vals = list(ind.values())
        if not any(v.startswith('unavailable') for v in vals):
            if vals[:3] != ['NoError'] * 3 or vals[4] != 'NoError':
                raise RuntimeError('BisectInd: the inductive argument fails on the unchanged specification: %s' % ind)
            if vals[3] != 'Error' or vals[5] != 'Error':
                raise RuntimeError('BisectInd: a non-vacuity run is not refuted: %s' % ind)
        ctx.tlc('Bracketing.mc', 'Bracketing', cfgB % ((6, 4) if quick else (8, 5)), env={'TRACE_FILE': empty}, timeout=1200)
        rs = np.random.RandomState(ctx.seed + 3)
        recs = []
        sizes = [1, 1, 2, 3, 5, 17, 100, 1000] if quick else [1, 1, 1, 2, 2, 3, 5, 8, 17, 50, 100, 333, 1000, 1000]
        reps = 6 if quick else 25
        for rep in range(reps):
            for n in sizes:
                for alg in ('chandrupatla', 'bisect'):
                    recs.extend(run_family(alg, rs, n, 6 if n > 6 else n))
        # scalar calls and invalid brackets
        from copulas import optimize
        for i in range(40 if quick else 400):
            f, lo, hi, root, kinds = family(rs, 1)
            rec = {'alg': 'chandrupatla-scalar', 'kind': KINDS[kinds[0]], 'err': '', 'inside': True, 'accurate': True, 'exactzero': False,
                   'n': 1, 'lo': {'x': 0, 's': -1, 'm': 1}, 'hi': {'x': 1, 's': 1, 'm': 1}, 'evals': [], 'ret': -1}
            try:
                xs = float(optimize.chandrupatla(lambda x: float(f(np.array([x]))[0]), float(lo[0]), float(hi[0])))
                xv = float(optimize.chandrupatla(f, lo.copy(), hi.copy())[0])
                w = hi[0] - lo[0]
                rec['inside'] = bool(lo[0] <= xs <= hi[0])
                rec['accurate'] = bool(abs(xs - root[0]) <= 1e-9 * w + 4e-16 * max(abs(root[0]), abs(xs)))
                rec['exactzero'] = bool(f(np.array([xs]))[0] == 0.0)
                if abs(xs - xv) > 1e-9 * w:
                    rec['err'] = 'scalar-differs-from-one-element-vector'
            except Exception as ex:
                rec['err'] = 'raised-' + type(ex).__name__
            recs.append(rec)
        # brackets given as arrays of another numeric type (integer end points, an integer lower with a float upper end, float32)
        for i in range(36 if quick else 240):
            n = int(rs.choice([1, 3, 10]))
            r_ = rs.uniform(3.0, 97.0, n)
            a_ = 10.0 ** rs.uniform(-3, 3, n)
            cubic = bool(i % 3 == 0)

            def fint(x, r_=r_, a_=a_, cubic=cubic):
                d = np.asarray(x, dtype=float) - r_
                return a_ * (d ** 3 if cubic else d)
            form = ('int64', 'int32', 'int-lower-float-upper', 'float32')[i % 4]
            lo_ = np.zeros(n, dtype={'int64': np.int64, 'int32': np.int32, 'int-lower-float-upper': np.int64, 'float32': np.float32}[form])
            hi_ = np.full(n, 100, dtype={'int64': np.int64, 'int32': np.int32, 'int-lower-float-upper': np.float64, 'float32': np.float32}[form])
            for alg in ('bisect', 'chandrupatla'):
                if form == 'float32' and alg == 'chandrupatla':
                    continue        # single-precision arithmetic cannot meet a 1e-9 contract; bisect converts its brackets to double
                rec = {'alg': alg + '-typed-brackets', 'kind': form + (',cubic' if cubic else ',linear'), 'err': '', 'inside': True, 'accurate': True,
                       'exactzero': False, 'n': n, 'lo': {'x': 0, 's': -1, 'm': 1}, 'hi': {'x': 1, 's': 1, 'm': 1}, 'evals': [], 'ret': -1}
                try:
                    if form == 'int-lower-float-upper' and n > 1:
                        # the caller keeps its bracket arrays and solves a second problem on them (another level of the same function)
                        getattr(optimize, alg)(lambda x: fint(x) + a_ * 1.5 * (1 if not cubic else 1.5 ** 2), lo_, hi_)
                        x = np.asarray(getattr(optimize, alg)(fint, lo_, hi_), dtype=float)
                    else:
                        x = np.asarray(getattr(optimize, alg)(fint, lo_.copy(), hi_.copy()), dtype=float)
                    rec['inside'] = bool(np.all((x >= 0.0) & (x <= 100.0)))
                    tolx = 1e-8 if alg == 'bisect' else 1e-9 * 100.0
                    # a cubic is flat at its root: judged by the residual against the value one tolerance away from the root
                    near = np.abs(x - r_) <= tolx * 1.01 + 4e-16 * np.abs(r_)
                    zero = fint(x) == 0.0
                    rec['accurate'] = bool(np.all(near | zero))
                except Exception as ex:
                    rec['err'] = 'raised-' + type(ex).__name__
                recs.append(rec)
        for i in range(30 if quick else 300):
            n = int(rs.choice([1, 2, 5, 50]))
            f, lo, hi, root, kinds = family(rs, n)
            j = int(rs.randint(n))
            side = int(rs.randint(2))
            w = hi - lo
            lo2, hi2 = lo.copy(), hi.copy()
            if side == 0:
                lo2[j] = root[j] + 0.25 * (hi[j] - root[j]) + 1e-3 * w[j]      # f(xmin) > 0
            else:
                hi2[j] = root[j] - 0.25 * (root[j] - lo[j]) - 1e-3 * w[j]      # f(xmax) < 0
            if not (lo2[j] < hi2[j]):
                continue
            for alg in ('bisect', 'chandrupatla'):
                rec = {'alg': alg + '-invalid', 'kind': KINDS[kinds[j]], 'err': 'invalid-bracket-accepted', 'inside': True, 'accurate': True,
                       'exactzero': False, 'n': n, 'lo': {'x': 0, 's': -1, 'm': 1}, 'hi': {'x': 1, 's': 1, 'm': 1}, 'evals': [], 'ret': -1}
                try:
                    getattr(optimize, alg)(f, lo2.copy(), hi2.copy())
                except Exception:
                    rec['err'] = 'rejected-as-expected'
                recs.append(rec)
        # invalid brackets whose end values are tiny (shallow functions, brackets hugging the root from one side)
        for i in range(40 if quick else 300):
            sc = 10.0 ** rs.uniform(-14, -7)
            r0 = rs.uniform(-5, 5)
            w0 = 10.0 ** rs.uniform(-3, 1)
            side = 1 if rs.uniform() < 0.5 else -1
            a_, b_ = sorted([r0 + side * w0 * rs.uniform(0.01, 0.2), r0 + side * w0 * rs.uniform(0.3, 1.0)])
            cubic = rs.uniform() < 0.3
            n = int(rs.choice([1, 3]))

            def ftiny(x, sc=sc, r0=r0, cubic=cubic):
                d = np.asarray(x, dtype=float) - r0
                return sc * (d ** 3 if cubic else d)
            for alg in ('bisect', 'chandrupatla', 'chandrupatla-scalar'):
                rec = {'alg': alg.split('-')[0] + '-invalid', 'kind': 'tiny-values', 'err': 'invalid-bracket-accepted', 'inside': True, 'accurate': True,
                       'exactzero': False, 'n': n, 'lo': {'x': 0, 's': -1, 'm': 1}, 'hi': {'x': 1, 's': 1, 'm': 1}, 'evals': [], 'ret': -1}
                try:
                    if alg == 'chandrupatla-scalar':
                        optimize.chandrupatla(lambda x: float(ftiny(x)), float(a_), float(b_))
                    else:
                        getattr(optimize, alg)(ftiny, np.full(n, a_), np.full(n, b_))
                except Exception:
                    rec['err'] = 'rejected-as-expected'
                recs.append(rec)
        # the library's own use of the two finders: GaussianKDE.percent_point(method='chandrupatla' | 'bisect')
        from copulas.univariate import GaussianKDE
        for i in range(3 if quick else 12):
            X = np.concatenate([rs.normal(0, 1, 40), rs.normal(6, 2, 40)]) * 10.0 ** rs.uniform(-2, 2)
            kde = GaussianKDE(bw_method=[None, 'silverman', 0.4][i % 3])
            kde.fit(X)
            q = np.concatenate([[1e-5, 1e-3], np.linspace(0.02, 0.98, 49), [1 - 1e-3, 1 - 1e-5]])
            for meth in ('chandrupatla', 'bisect'):
                rec = {'alg': 'kde-percent_point-' + meth, 'kind': 'kde', 'err': '', 'inside': True, 'accurate': True, 'exactzero': False,
                       'n': len(q), 'lo': {'x': 0, 's': -1, 'm': 1}, 'hi': {'x': 1, 's': 1, 'm': 1}, 'evals': [], 'ret': -1}
                try:
                    x = np.asarray(kde.percent_point(q.copy(), method=meth), dtype=float)
                    lo_, hi_ = kde._get_bounds()
                    rec['inside'] = bool(np.all((x >= lo_) & (x <= hi_)))
                    # within tolerance of the root of cdf(x) - q: judged through the residual and the local slope
                    res = np.abs(np.asarray(kde.cumulative_distribution(x), dtype=float) - q)
                    slope = np.maximum(np.asarray(kde.probability_density(x), dtype=float), 1e-300)
                    tolx = 1e-8 if meth == 'bisect' else 1e-9 * (hi_ - lo_)
                    rec['accurate'] = bool(np.all(res <= slope * tolx * 4 + 1e-12))
                except Exception as ex:
                    rec['err'] = 'raised-' + type(ex).__name__
                recs.append(rec)
        tf = os.path.join(wd, 'lanes.json')
        T.dump_json(tf, [{k: r[k] for k in ('err', 'lo', 'hi', 'evals', 'ret', 'inside', 'accurate', 'exactzero')} for r in recs])
        r = T.run('Bracketing', cfgB % (1, 0) + 'INVARIANT TraceChecked\n', workers=1, env={'TRACE_FILE': tf}, timeout=1500)
        ctx.note_tlc('Bracketing.trace', r)
        verdict = r.tagged('VERDICT')
        if not verdict:
            raise T.TlcError('Bracketing trace: no verdict\n' + r.raw[-2500:])
    finally:
        import shutil
        shutil.rmtree(wd, ignore_errors=True)
    ctx.traces += sum(1 for x in recs if x['evals'])
    ctx.extra['lanes_checked'] = len(recs)
    ctx.extra['lanes_with_replayed_traces'] = sum(1 for x in recs if x['evals'])
    notes = {}
    NOTE = ('evaluation-outside-bracket', 'bracket-lost', 'returned-value-is-not-the-better-bracket-end')
    for line, clauses in verdict[-1][0]:
        rec = recs[line - 1]
        for cl in clauses:
            if cl in NOTE:
                notes[cl] = notes.get(cl, 0) + 1
                continue
            sig = 'C18|%s|%s|%s' % (rec['alg'], rec['kind'], cl)
            ctx.violation(sig, '%s: %s (%s function, batch of %d lanes)' % (rec['alg'], cl, rec['kind'], rec['n']),
                          {k: rec[k] for k in rec if k != 'evals'})
    ctx.extra['refinement_notes'] = notes
    for i, rec in enumerate(recs):
        ctx.case('%s|%s|%d|%d' % (rec['alg'], rec['kind'], rec['n'], i), nontrivial=(rec['err'] in ('', 'rejected-as-expected')))
    ctx.sample({'lane_record': {k: v for k, v in next((x for x in recs if x['evals']), recs[0]).items()}})
    ctx.exhaustive = False
    import shutil
    for d in _PF:
        shutil.rmtree(d, ignore_errors=True)
