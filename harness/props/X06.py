"""X06 (extra, no listed property)  The `random_state` argument of the models (copulas.utils.validate_random_state through the constructors
and set_random_state) as a state machine over the field `random_state` (spec/SeedArg.tla).

TLC checks the design (a refused argument leaves the field as it was, a call writes the field of the addressed object only, the field is
None / an owned generator seeded with a Python int / the caller's generator object) and emits every behaviour of two steps over two
objects and thirteen argument classes plus simulated behaviours of four steps; each is executed on real objects of five classes and after
every step the outcome (ok / TypeError / ValueError) and the field of every object (None / owned generator whose stream is that of
RandomState(n) and which is no other object's generator / the caller's object itself) are compared.
"""
import json

import numpy as np

from .. import tlc as T

LEVEL = 'model_checking'
CFG = 'SPECIFICATION Spec\nCONSTANTS\n  MaxLen = %d\n  Objects = {"p", "q"}\n%s\nCHECK_DEADLOCK FALSE\n'
PROPS = 'INVARIANT NeverNumpyInt\nINVARIANT SharingIsExplicit\nPROPERTY RefusalKeepsField\nPROPERTY OnlyTheAddressedObject'


def classes():
    from copulas.bivariate import Clayton, Frank
    from copulas.multivariate import GaussianMultivariate, VineCopula
    from copulas.univariate import BetaUnivariate, GaussianKDE, GaussianUnivariate, TruncatedGaussian, Univariate
    return {'GaussianMultivariate': GaussianMultivariate, 'VineCopula': lambda **k: VineCopula('center', **k), 'Clayton': Clayton, 'Frank': Frank,
            'GaussianUnivariate': GaussianUnivariate, 'TruncatedGaussian': TruncatedGaussian, 'Univariate': Univariate, 'GaussianKDE': GaussianKDE,
            'BetaUnivariate': BetaUnivariate}


def argument(a, gens):
    return {'none': None, 'int0': 0, 'int7': 7, 'true': True, 'npint': np.int64(7), 'float': 7.0, 'str': '7', 'tuple': np.random.RandomState(7).get_state(),
            'generator': np.random.default_rng(7), 'negative': -1, 'toobig': 2 ** 32, 'rsA': gens['A'], 'rsB': gens['B']}[a]


def project(obj, gens, others):
    """the field of an object as a value of the specification"""
    if obj is None:
        return ['unbuilt', '-']
    rs = obj.random_state
    if rs is None:
        return ['none', '-']
    for g, o in gens.items():
        if rs is o:
            return ['shared', g]
    if not isinstance(rs, np.random.RandomState):
        return ['foreign', type(rs).__name__]
    if any(rs is getattr(x, 'random_state', None) for x in others if x is not None):
        return ['aliased', '-']
    state = rs.get_state()
    for n in (0, 1, 7):
        ref = np.random.RandomState(n).get_state()
        if state[0] == ref[0] and np.array_equal(state[1], ref[1]) and state[2:] == ref[2:]:
            return ['seeded', str(n)]
    return ['seeded', 'other']


def execute(cls, beh):
    """-> None or (step, what)"""
    gens = {'A': np.random.RandomState(100), 'B': np.random.RandomState(200)}
    objs = {'p': None, 'q': None}
    global_before = np.random.get_state()
    for i, ev in enumerate(beh):
        arg = argument(ev['a'], gens)
        try:
            if ev['e'] == 'Construct':
                objs[ev['o']] = cls(random_state=arg)
            else:
                objs[ev['o']].set_random_state(arg)
            out = 'ok'
        except TypeError:
            out = 'TypeError'
        except ValueError:
            out = 'ValueError'
        except Exception as ex:     # noqa
            out = type(ex).__name__
        if out != ev['out']:
            return i, 'outcome-expected-%s-got-%s' % (ev['out'], out)
        got = project(objs[ev['o']], gens, [objs[k] for k in objs if k != ev['o']])
        if got != list(ev['after']):
            return i, 'field-expected-%s-got-%s' % ('/'.join(ev['after']), '/'.join(got))
    g = np.random.get_state()
    if not (g[0] == global_before[0] and np.array_equal(g[1], global_before[1]) and g[2:] == global_before[2:]):
        return len(beh) - 1, 'global-generator-changed'
    for k, gen in gens.items():
        ref = np.random.RandomState({'A': 100, 'B': 200}[k]).get_state()
        if not np.array_equal(gen.get_state()[1], ref[1]):
            return len(beh) - 1, 'callers-generator-advanced'
    return None


def run(ctx):
    quick = ctx.tier == 'quick'
    ctx.rule = ('extra coverage, not a listed property: TLC checks spec/SeedArg.tla (RefusalKeepsField, OnlyTheAddressedObject, NeverNumpyInt, SharingIsExplicit) and '
                'emits every behaviour of 2 steps (Construct / Set on two objects x 13 argument classes) plus simulated behaviours of 4 steps; each is executed on real '
                'objects of nine classes; outcome and projected field compared after every step, the global generator and the caller\'s generators must not move.  '
                'non-trivial = a behaviour with a Set step; distinct by content')
    ctx.assumptions = ['the field is projected by identity (caller\'s generator), by state equality with RandomState(n) for n in 0, 1, 7, and by aliasing between the two objects']
    ctx.tlc('SeedArg: design', 'SeedArg', CFG % (3, PROPS), timeout=600)
    r = ctx.tlc('SeedArg.gen', 'SeedArg', CFG % (2, 'INVARIANT Emit'), workers=1, timeout=600)
    behs = {}
    for b in r.tagged('BEH'):
        behs[json.dumps(b[0], sort_keys=True)] = b[0]
    r = T.run('SeedArg', CFG % (4, 'INVARIANT Emit'), workers=1, simulate='num=%d' % (300 if quick else 3000), depth=6, seed=ctx.seed + 5, timeout=600)
    ctx.note_tlc('SeedArg.simulate', r)
    for b in r.tagged('BEH'):
        behs[json.dumps(b[0], sort_keys=True)] = b[0]
    if len(behs) < 300:
        raise T.TlcError('SeedArg: %d behaviours emitted' % len(behs))
    blist = [behs[k] for k in sorted(behs)]
    for cname, cls in sorted(classes().items()):
        for beh in blist:
            ctx.case(cname + '|' + json.dumps(beh, sort_keys=True), nontrivial=any(e['e'] == 'Set' for e in beh))
            res = execute(cls, beh)
            if res:
                ev = beh[res[0]]
                ctx.violation('X06|%s|%s|%s|%s' % (cname, ev['e'], ev['a'], res[1]),
                              'step %d of %s on %s: %s' % (res[0] + 1, json.dumps(beh), cname, res[1]), {'class': cname, 'behaviour': beh})
    ctx.extra['behaviours'] = len(blist)
    ctx.extra['classes'] = sorted(classes())
    ctx.sample(blist[len(blist) // 2])
    ctx.traces += len(blist) * len(classes())
    ctx.exhaustive = False
