"""X02  (extra, not one of the listed properties)  The walk of VineCopula._sample_row follows spec/VineSample.tla.

C17 claims the distribution of vine samples for two-column tables only.  This extra check binds the *procedure* of sampling to a
specification for any number of columns: which variable is drawn when, through which pair copulas it is conditioned, on which
variable, starting from which value.  It is a conformance check of what the code does - a deliberate improvement of the sampler would
change the walk and make this check (not C17) report the difference, which is why it is kept out of MANIFEST.json."""
import json
import os
import traceback
from multiprocessing import Pool

import numpy as np

from .. import tlc as T
from .. import vine_tools as V

LEVEL = 'model_checking'


def _walk_rows(job):
    """fit a vine on a random table, then record one _sample_row per choice of the first variable"""
    n, pattern, vtype, trunc, seed = job
    import copulas.bivariate as cb
    from copulas.bivariate.base import Bivariate
    rs = np.random.RandomState(seed)
    df = V.random_table(rs, n, pattern)
    out = []
    try:
        m = V.fit_vine(df, vtype, trunc)
    except Exception as ex:
        return [{'n': n, 'trunc': trunc, 'first': 0, 'trees': [], 'events': [], 'err': 'fit-' + type(ex).__name__, 'desc': [vtype, n, trunc, pattern]}]
    trees = [[{'L': int(e.L), 'R': int(e.R), 'D': sorted(int(x) for x in e.D), 'index': int(e.index)} for e in t.edges] for t in m.trees]
    posok = all(e['index'] == i for t in trees for i, e in enumerate(t))
    key = {}
    for lvl, t in enumerate(m.trees):
        for e in t.edges:
            key.setdefault((V.fam_name(e), float(e.theta)), []).append((lvl, int(e.index)))
    unis = (np.arange(n) + 1.0) / (n + 1.0) + 0.013 * np.sin(np.arange(n) + 1.0)
    subs = [Bivariate] + [c for c in Bivariate.__subclasses__()]
    classes = [c for c in subs if 'percent_point' in c.__dict__]
    orig = {c: c.__dict__['percent_point'] for c in classes}
    real_uniform, real_randint = np.random.uniform, np.random.randint
    real_ppfs = list(m.ppfs)
    for first in range(n):
        events = []
        state = {'ambiguous': False}

        def rec_inv(self, y, Vv, _orig=None):
            if state.get('depth'):          # a family's percent_point delegating to the base class: one call
                return _orig(self, y, Vv)
            state['depth'] = 1
            try:
                return rec_inv1(self, y, Vv, _orig)
            finally:
                state['depth'] = 0

        def rec_inv1(self, y, Vv, _orig):
            yv, vv = float(np.ravel(y)[0]), float(np.ravel(Vv)[0])
            cands = key.get((self.copula_type.name, float(self.theta)), [])
            if len(cands) != 1:
                state['ambiguous'] = True
            lvl, idx = cands[0] if cands else (-1, -1)
            given = [j for j in range(n) if unis[j] == vv]
            src = 'uni' if any(unis[j] == yv for j in range(n)) else 'tmp'
            events.append({'k': 'inv', 'a': lvl, 'b': idx, 'c': given[0] if given else -1, 'src': src})
            return _orig(self, y, Vv)

        def mk(c):
            o = orig[c]
            return lambda self, y, Vv: rec_inv(self, y, Vv, _orig=o)

        def mkppf(j):
            f = real_ppfs[j]

            def g(x):
                xv = float(np.ravel(x)[0])
                events.append({'k': 'var', 'a': j, 'b': 0, 'c': 0, 'src': 'uni' if xv == unis[j] else 'tmp'})
                return f(x)
            return g
        err = ''
        try:
            for c in classes:
                setattr(c, 'percent_point', mk(c))
            m.ppfs = [mkppf(j) for j in range(n)]
            np.random.uniform = lambda *a, **k: unis.copy()
            np.random.randint = lambda *a, **k: first
            row = m._sample_row()
            if len(np.ravel(row)) != n or not np.all(np.isfinite(np.asarray(row, dtype=float))):
                err = 'row-not-finite'
        except Exception as ex:
            err = type(ex).__name__ + ':' + traceback.format_exc(limit=-1)[-200:]
        finally:
            np.random.uniform, np.random.randint = real_uniform, real_randint
            m.ppfs = real_ppfs
            for c in classes:
                setattr(c, 'percent_point', orig[c])
        out.append({'n': n, 'trunc': int(m.truncated), 'first': first, 'trees': trees, 'events': events, 'err': err,
                    'skip': bool(state['ambiguous'] or not posok), 'desc': [vtype, n, trunc, pattern]})
    return out


def run(ctx):
    quick = ctx.tier == 'quick'
    ctx.rule = ('extra coverage, not a listed property: real VineCopula.fit on random tables (2..6 columns, all patterns, three vine types, '
                'all truncations); for every choice of the first variable one _sample_row is run with fixed uniforms and its calls are '
                'recorded from outside (marginal quantile functions, pair-copula inversions with level / edge / conditioning variable / '
                'starting value); TLC (VineSample) recomputes the walk from the structure alone and compares, and evaluates the design '
                'facts (every variable exactly once, running value defined when used).  non-trivial = a model with >= 3 columns; '
                'distinct by (type, n, truncation, table, first variable)')
    ctx.assumptions = ['an edge is recognised by (family, theta); rows where that is ambiguous are skipped and counted',
                       'np.random.uniform / randint are replaced for the duration of one _sample_row']
    jobs = []
    rs = np.random.RandomState(ctx.seed + 23)
    for i in range(60 if quick else 600):
        n = int(rs.choice([2, 3, 4, 5, 6], p=[0.1, 0.2, 0.3, 0.25, 0.15]))
        pattern = V.PATTERNS[i % len(V.PATTERNS)]
        trunc = int(rs.choice([1, 2, max(1, n - 1), n]))
        for vt in ('center', 'direct', 'regular'):
            jobs.append((n, pattern, vt, trunc, ctx.seed * 7919 + i))
    with Pool(16) as pool:
        rows = [r for rr in pool.map(_walk_rows, jobs, chunksize=2) for r in rr]
    skipped = [r for r in rows if r.get('skip')]
    rows = [dict(r, design=False) for r in rows if not r.get('skip')]
    # design part: every complete vine module Vine emits for small d, every first variable, truncation 1 and d - no real code involved
    from .C16 import spec_vines
    ndesign = 0
    for vt in ('center', 'direct', 'regular'):
        for n in ((2, 3, 4) if quick else (2, 3, 4, 5)):
            for sv in spec_vines(ctx, n, vt, n):
                trees = [[{'L': e['L'], 'R': e['R'], 'D': list(e['D']), 'index': i} for i, e in enumerate(t)] for t in sv]
                for trunc in sorted({1, n}):
                    for first in range(n):
                        rows.append({'n': n, 'trunc': trunc, 'first': first, 'trees': trees, 'events': [], 'err': '', 'design': True,
                                     'desc': [vt, n, trunc, 'design']})
                        ndesign += 1
    ctx.extra['design_rows'] = ndesign
    wd = T.workdir()
    try:
        tf = os.path.join(wd, 'walk.json')
        T.dump_json(tf, [{k: v for k, v in r.items() if k not in ('desc', 'skip')} for r in rows])
        r = T.run('VineSample', 'SPECIFICATION Spec\nINVARIANT TraceChecked\nCHECK_DEADLOCK FALSE\n', workers=1, env={'TRACE_FILE': tf}, timeout=1500)
        ctx.note_tlc('VineSample', r)
        v = r.tagged('VERDICT')
        if not v:
            raise T.TlcError('VineSample: no verdict\n' + r.raw[-2500:])
    finally:
        import shutil
        shutil.rmtree(wd, ignore_errors=True)
    verdict, stale, uncond = v[0][0], list(v[0][1]), list(v[0][2])
    for row in rows:
        ctx.case(json.dumps([row['desc'], row['first'], row['trees']]), nontrivial=row['n'] >= 3)
    ctx.traces += len(rows) - ndesign
    ctx.extra['rows_skipped_as_ambiguous'] = len(skipped)
    ctx.extra['rows_in_which_a_variable_reuses_the_previous_value'] = sum(1 for x in stale if x)
    ctx.extra['rows_in_which_a_variable_ignores_its_first_tree_neighbour'] = sum(1 for x in uncond if x)
    ctx.extra['rows'] = len(rows)
    ctx.sample({k: rows[len(rows) // 2][k] for k in ('n', 'trunc', 'first', 'trees', 'events')})
    for line, probs in verdict:
        row = rows[line - 1]
        for p in probs:
            ctx.violation('X02|walk|%s|%s,n=%d' % (p, row['desc'][0], row['n']),
                          '%s (%s vine, %d columns, truncation %d, table %s, first variable %d) %s' % (p, row['desc'][0], row['n'], row['trunc'], row['desc'][3], row['first'], row['err']),
                          row)
    ctx.exhaustive = False
