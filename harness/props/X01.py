"""X01  (extra, not one of the listed properties)  The add-on loader attaches every entry point where its name says, or warns.

spec/Addons.tla models copulas/__init__.py::_find_addons / _get_addon_target as a transition system over the tree of objects
reachable from the package; TLC checks the design properties and emits every list of up to two entry points with the expected
final world; each is executed on the real loader (scratch attributes on the real package, fake entry points) and compared."""
import json
import sys
import types
import warnings

from .. import tlc as T

LEVEL = 'model_checking'
CFG = '''SPECIFICATION Spec
CONSTANTS
  Pkg = "copulas"
  Modules0 <- MC_Modules0
  Objects0 <- MC_Objects0
  ModPaths <- MC_ModPaths
  ObjPaths <- MC_ObjPaths
  MaxEntries = %d
INVARIANT TypeOK
INVARIANT OneOutcomeEach
INVARIANT ForeignNamesAttachNothing
INVARIANT FailuresDoNotStopTheLoop
INVARIANT OriginalModulesStayRegistered
PROPERTY SysModulesAreNeverOverwritten
%s
CHECK_DEADLOCK FALSE
'''
ORIG_MODS = (('copulas',), ('copulas', 'vt_sub'))
ORIG_OBJS = (('copulas', 'vt_sub', 'obj'), ('copulas', 'vt_sub', 'obj', 'inner'), ('copulas', 'vt_thing'))


class FakeEntryPoint(object):
    def __init__(self, name, addon):
        self.name = name
        self.value = 'vt_addons:' + name
        self._addon = addon

    def load(self):
        if isinstance(self._addon, Exception):
            raise self._addon
        return self._addon


def _reach(root, path):
    obj = root
    for name in path[1:]:
        if not hasattr(obj, name):
            return None
        obj = getattr(obj, name)
    return obj


def _setset(v):
    return v['__set__'] if isinstance(v, dict) else list(v)


def realise(case):
    """run the real loader on the case's entry points; return the list of differences from the specification's final world"""
    import copulas
    pkg = sys.modules['copulas']
    before_attrs = set(vars(pkg))
    before_mods = dict(sys.modules)
    # scratch world
    sub = types.ModuleType('copulas.vt_sub')
    sub.obj = types.SimpleNamespace(inner=types.SimpleNamespace())
    pkg.vt_sub = sub
    sys.modules['copulas.vt_sub'] = sub
    pkg.vt_thing = types.SimpleNamespace()
    orig = {p: _reach(pkg, p) for p in ORIG_MODS + ORIG_OBJS}
    eps, addons = [], {}
    for k, e in enumerate(case['eps'], 1):
        name = '.'.join(e['mp']) + ((':' + '.'.join(e['op'])) if e['op'] else '')
        if e['kind'] == 'module':
            addon = types.ModuleType('addon.%d' % k)
        elif e['kind'] == 'object':
            addon = types.SimpleNamespace(tag=k)
        else:
            addon = ImportError('add-on %d cannot be imported' % k)
        addons[k] = addon
        eps.append(FakeEntryPoint(name, addon))
    real_entry_points = copulas.entry_points
    copulas.entry_points = lambda group=None: list(eps)
    probs = []
    crashed = False
    try:
        with warnings.catch_warnings(record=True) as w:
            warnings.simplefilter('always')
            try:
                copulas._find_addons()
            except AttributeError:
                crashed = True
            except Exception as ex:
                probs.append('loader raised %s' % type(ex).__name__)
        got_warn = []
        for x in w:
            msg = str(x.message)
            kind = 'load' if msg.startswith('Failed to load') else 'target' if msg.startswith('Failed to set') else 'other'
            which = [k for k, ep in enumerate(eps, 1) if ('"%s"' % ep.name) in msg or ("'%s'" % ep.name) in msg]
            got_warn.append([which[0] if which else 0, kind])
        exp_warn = [[int(a), b] for a, b in case['warn']]
        # two entry points of one case can carry the same name: compare kinds in order, indices when unambiguous
        if [k for _, k in got_warn] != [k for _, k in exp_warn]:
            probs.append('warnings %s, expected %s' % (got_warn, exp_warn))
        if crashed != bool(case['crashed']):
            probs.append('loader %s, expected %s' % ('failed' if crashed else 'returned', 'a failure' if case['crashed'] else 'a return'))
        owner = {tuple(p): int(k) for p, k in _setset(case['owner'])}
        gone = {tuple(p) for p in _setset(case['gone'])}
        for p, k in owner.items():
            if _reach(pkg, p) is not addons[k]:
                probs.append('%s is not the add-on of entry point %d' % ('.'.join(p), k))
        for p, o in orig.items():
            here = _reach(pkg, p)
            if p in owner:
                continue
            if p in gone:
                if here is o:
                    probs.append('%s should have been replaced' % '.'.join(p))
            elif here is not o:
                probs.append('%s was changed' % '.'.join(p))
        # nothing else was attached to the package, and sys.modules changed exactly as prescribed
        extra_attrs = set(vars(pkg)) - before_attrs - {'vt_sub', 'vt_thing', '__warningregistry__'} - {p[1] for p in owner if len(p) > 1}
        if extra_attrs:
            probs.append('unexpected package attributes %s' % sorted(extra_attrs))
        exp_sys = {'.'.join(p): int(k) for p, k in _setset(case['sysmods'])}
        new_sys = {n: m for n, m in sys.modules.items() if n not in before_mods and n != 'copulas.vt_sub'}
        for n, k in exp_sys.items():
            if sys.modules.get(n) is not addons[k]:
                probs.append('sys.modules[%s] is not the add-on of entry point %d' % (n, k))
        for n in new_sys:
            if n not in exp_sys:
                probs.append('unexpected sys.modules entry %s' % n)
        for n, m in before_mods.items():
            if sys.modules.get(n) is not m:
                probs.append('sys.modules[%s] was replaced' % n)
        if sys.modules.get('copulas.vt_sub') is not sub:
            probs.append('sys.modules[copulas.vt_sub] was replaced')
    finally:
        copulas.entry_points = real_entry_points
        for n in list(vars(pkg)):
            if n not in before_attrs:
                delattr(pkg, n)
        for n in list(sys.modules):
            if n not in before_mods:
                del sys.modules[n]
    return probs


def run(ctx):
    quick = ctx.tier == 'quick'
    ctx.rule = ('extra coverage, not a listed property: TLC checks the design properties of spec/Addons.tla (one outcome per entry point, '
                'failures do not stop the loop, foreign names attach nothing, sys.modules is never overwritten) and emits every list of '
                '1..%d entry points over 8 module paths x 6 object paths x 3 load outcomes with the expected final world; each list is '
                'executed on the real loader (scratch attributes on the real package, fake entry points) and the warnings, attached objects, '
                'replaced / untouched originals, package attributes and sys.modules are compared.  non-trivial = every list; distinct by content')\
        % (2 if quick else 2)
    ctx.assumptions = ['entry points are faked by replacing copulas.entry_points for the duration of one call of copulas._find_addons()',
                       'a module add-on whose target is a plain object makes the loader fail with AttributeError (modelled as action Crash)']
    r = ctx.tlc('Addons', 'AddonsMC', CFG % (2, 'INVARIANT Emit'), workers=1, timeout=900)
    cases = [c[0] for c in r.tagged('CASE')]
    for c in cases:
        c['eps'] = [dict(mp=list(e['mp']), op=list(e['op']), kind=e['kind']) for e in c['eps']]
    bad = 0
    for c in cases:
        ctx.case(json.dumps(c['eps']))
        for p in realise(c):
            bad += 1
            ctx.violation('X01|addons|%s|%s' % (p.split(' ')[0] if p.startswith(('warnings', 'loader', 'unexpected')) else 'world-differs',
                                               '+'.join(e['kind'] for e in c['eps'])),
                          '%s for entry points %s' % (p, [('.'.join(e['mp']) + (':' + '.'.join(e['op']) if e['op'] else ''), e['kind']) for e in c['eps']]), c)
    ctx.sample(cases[len(cases) // 2])
    ctx.traces += len(cases)
    ctx.exhaustive = True
