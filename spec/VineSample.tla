-------------------------------- MODULE VineSample --------------------------------
(***************************************************************************)
(* The walk by which VineCopula._sample_row draws one row (vine.py), as the  *)
(* code does it - an extension of the specification beyond the clauses of    *)
(* C17, which speaks about the distribution of samples only for two columns. *)
(*                                                                           *)
(* One row: d uniforms are drawn, a first variable is chosen at random; the  *)
(* first tree is then explored depth first (a stack `explore`, the list      *)
(* `visited` with the most recent variable first).  The first variable is    *)
(* its marginal quantile of its uniform.  For the variable visited at        *)
(* iteration itr >= 1 the levels i = itr-1 .. 0 below the truncation are     *)
(* scanned: at level 0 the edge joining the variable with the MOST RECENTLY  *)
(* visited one, at level i >= 1 the FIRST edge of tree i+1 that contains the *)
(* variable - taken only if its variables are all visited; if an edge is     *)
(* found the running value is inverted through that edge's copula given the  *)
(* uniform of the most recently visited variable.  The running value starts  *)
(* as the variable's own uniform only if the top level yields an edge;       *)
(* otherwise whatever value the previous variable left behind is carried on. *)
(* These are the facts of the code; the module records them as events:       *)
(*    <<"inv", level, position, given, src>>   src = "uni" | "tmp"           *)
(*    <<"var", variable, src>>                 src = "uni" | "tmp"           *)
(*                                                                           *)
(* Judged per logged row: the recorded events of the real call equal the     *)
(* walk.  Design facts evaluated on every logged structure (and counted in   *)
(* the verdict, not as violations): every variable is sampled exactly once;  *)
(* the running value is defined whenever it is used; and the two things the  *)
(* walk does NOT guarantee - a variable may be sampled without any inversion *)
(* of its own (it then reuses the previous variable's value: "stale"), and   *)
(* a variable may ignore its first-tree neighbour ("unconditioned").         *)
(***************************************************************************)
EXTENDS Naturals, Sequences, FiniteSets, TLC, Json, IOUtils, TLCExt

Rows == JsonDeserialize(IOEnv.TRACE_FILE)
\* row: [n, trunc, first, trees: <<tree>>, events: <<event>>, err, design]  (design = TRUE: a structure emitted by module Vine, no events:
\* only the design facts are evaluated)    tree = <<[L, R, D: <<var>>, index]>> (variables 0 .. n-1)

SetOf(s) == {s[i] : i \in DOMAIN s}
Neighbours(r, v) ==      \* in increasing order, as np.where returns them
  LET t == r.trees[1]
      ns == {w \in 0..(r.n - 1) : \E i \in DOMAIN t : (t[i].L = v /\ t[i].R = w) \/ (t[i].R = v /\ t[i].L = w)}
  IN ns

RECURSIVE SortedSeq(_)
SortedSeq(S) == IF S = {} THEN <<>> ELSE LET m == CHOOSE x \in S : \A y \in S : x <= y IN <<m>> \o SortedSeq(S \ {m})

\* explore.insert(0, s) for s in increasing order: the largest unvisited neighbour ends up on top
RECURSIVE PushAll(_, _)
PushAll(stack, xs) == IF xs = <<>> THEN stack ELSE PushAll(<<Head(xs)>> \o stack, Tail(xs))

\* the edge looked up at level i (0-based) for variable cur; 0 = none.  Positions are 1-based here; the code uses edge.index
EdgeAt(r, i, cur, visited) ==
  LET t == r.trees[i + 1] IN
  IF i = 0
  THEN LET hits == {p \in DOMAIN t : (t[p].L = cur /\ t[p].R = visited[1]) \/ (t[p].R = cur /\ t[p].L = visited[1])}
       IN IF hits = {} THEN 0 ELSE CHOOSE p \in hits : \A q \in hits : p <= q
  ELSE LET hits == {p \in DOMAIN t : t[p].L = cur \/ t[p].R = cur}
       IN IF hits = {} THEN 0
          ELSE LET p == CHOOSE x \in hits : \A q \in hits : x <= q      \* the first edge containing cur: the scan breaks there
               IN IF (SetOf(t[p].D) \cup {t[p].L, t[p].R}) \subseteq (SetOf(visited) \cup {cur}) THEN p ELSE 0

\* levels itr-1 down to 0 for one variable: returns <<events, tmpdefined, inverted-at-all>>
RECURSIVE Levels(_, _, _, _, _, _, _)
Levels(r, i, itr, cur, visited, acc, st) ==
  \* st = <<tmpdef, any>>
  IF i < 0 THEN <<acc, st[1], st[2]>>
  ELSE IF i >= r.trunc \/ i + 1 > Len(r.trees) THEN Levels(r, i - 1, itr, cur, visited, acc, st)
  ELSE LET p == EdgeAt(r, i, cur, visited) IN
       IF p = 0 THEN Levels(r, i - 1, itr, cur, visited, acc, st)
       ELSE LET src == IF i = itr - 1 THEN "uni" ELSE "tmp"
                ev == <<"inv", i, r.trees[i + 1][p].index, visited[1], src, IF src = "tmp" /\ ~st[1] THEN "undefined" ELSE "ok">>
            IN Levels(r, i - 1, itr, cur, visited, Append(acc, ev), <<TRUE, TRUE>>)

RECURSIVE Walk(_, _, _, _, _, _, _)
Walk(r, explore, visited, itr, tmpdef, acc, facts) ==
  IF explore = <<>> THEN <<acc, visited, facts>>
  ELSE LET cur == Head(explore)
           rest == Tail(explore)
           nb == SortedSeq(Neighbours(r, cur) \ SetOf(visited))
       IN IF itr = 0
          THEN Walk(r, PushAll(rest, nb), <<cur>> \o visited, 1, tmpdef, Append(acc, <<"var", cur, "uni">>), facts)
          ELSE LET lv == Levels(r, itr - 1, itr, cur, visited, <<>>, <<tmpdef, FALSE>>)
                   used == IF lv[2] THEN "tmp" ELSE "undefined"
                   f1 == IF ~lv[3] THEN Append(facts, <<"stale", cur>>) ELSE facts
                   f2 == IF \A j \in DOMAIN lv[1] : lv[1][j][2] # 0 THEN Append(f1, <<"unconditioned", cur>>) ELSE f1
               IN Walk(r, PushAll(rest, nb), <<cur>> \o visited, itr + 1, lv[2],
                       acc \o lv[1] \o <<<<"var", cur, used>>>>, f2)

Expected(r) == Walk(r, <<r.first>>, <<>>, 0, FALSE, <<>>, <<>>)

\* events as logged: records [k: "inv"|"var", a, b, c, src]
Ev(e) == IF e.k = "var" THEN <<"var", e.a, e.src>> ELSE <<"inv", e.a, e.b, e.c, e.src>>
Strip(x) == IF x[1] = "var" THEN <<"var", x[2], x[3]>> ELSE <<"inv", x[2], x[3], x[4], x[5]>>

Judge(r) ==
  IF r.err # "" THEN [problems |-> <<"sample-row-raised">>, facts |-> <<>>]
  ELSE LET w == Expected(r)
           exp == [j \in DOMAIN w[1] |-> Strip(w[1][j])]
           got == [j \in DOMAIN r.events |-> Ev(r.events[j])]
           undefinedUse == \E j \in DOMAIN w[1] : (w[1][j][1] = "var" /\ w[1][j][3] = "undefined") \/ (w[1][j][1] = "inv" /\ w[1][j][6] = "undefined")
           once == Len(w[2]) = r.n /\ SetOf(w[2]) = 0..(r.n - 1)
           expShown == [j \in DOMAIN exp |-> IF exp[j][1] = "var" /\ exp[j][3] = "undefined" THEN <<"var", exp[j][2], "tmp">> ELSE exp[j]]
       IN [problems |-> (IF ~r.design /\ got # expShown THEN <<"events-differ-from-the-walk">> ELSE <<>>) \o
                        (IF ~once THEN <<"a-variable-not-sampled-exactly-once">> ELSE <<>>) \o
                        (IF undefinedUse THEN <<"running-value-used-before-it-is-defined">> ELSE <<>>),
           facts |-> w[3]]

VARIABLE k
Init == k = 1
Next == k < Len(Rows) /\ k' = k + 1
Spec == Init /\ [][Next]_k

TraceChecked == k = 1 =>
  PrintT(<<"VERDICT",
           SelectSeq([i \in 1..Len(Rows) |-> <<i, Judge(Rows[i]).problems>>], LAMBDA p : p[2] # <<>>),
           [i \in 1..Len(Rows) |-> Len(SelectSeq(Judge(Rows[i]).facts, LAMBDA f : f[1] = "stale"))],
           [i \in 1..Len(Rows) |-> Len(SelectSeq(Judge(Rows[i]).facts, LAMBDA f : f[1] = "unconditioned"))]>>)
=============================================================================
