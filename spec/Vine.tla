---------------------------------- MODULE Vine ----------------------------------
(***************************************************************************)
(* Structure building of copulas.multivariate.tree / vine (C16).            *)
(*                                                                           *)
(* One action per loop iteration of the three tree builders.  The Kendall    *)
(* tau values that rank the candidates are abstracted to nondeterminism:     *)
(* wherever the code takes "the candidate with the largest |tau|" the        *)
(* specification may take ANY candidate, so the reachable states cover every *)
(* ordering of the (conditional) dependences, ties included.                 *)
(*                                                                           *)
(* An edge is [L, R, D, pa]: conditioned variables L < R, conditioning set D,*)
(* pa = <<i, j>> the positions (1-based) of its parents in the previous tree *)
(* (<<0, 0>> in the first tree).  Variables are 0 .. N-1 as in the code.      *)
(*                                                                           *)
(* The C16 clauses are operators over a sequence of trees, so that the same  *)
(* definitions are evaluated (a) on every reachable state of the builders    *)
(* (design check) and (b) on structures logged from real fits (VineTrace).   *)
(***************************************************************************)
EXTENDS Integers, Sequences, FiniteSets, TLC

CONSTANTS N,        \* number of variables (columns), >= 2
          VType,    \* "center" | "direct" | "regular"
          Trunc     \* truncation level >= 1

Min2(S) == CHOOSE x \in S : \A y \in S : x <= y
Max2(S) == CHOOSE x \in S : \A y \in S : x >= y
MinI(a, b) == IF a < b THEN a ELSE b
MaxI(a, b) == IF a > b THEN a ELSE b
Range(s) == {s[i] : i \in DOMAIN s}

VarsOf(e) == {e.L, e.R} \cup e.D
FirstEdge(a, b) == [L |-> MinI(a, b), R |-> MaxI(a, b), D |-> {}, pa |-> <<0, 0>>]

\* Edge.sort_edge: by (L, R)
Before(e, f) == e.L < f.L \/ (e.L = f.L /\ e.R <= f.R)
\* Edge.get_child_edge(sort_edge([prev[i], prev[j]])): conditioned = symmetric difference, conditioning = intersection
Child(prev, i, j) ==
  LET a == IF Before(prev[i], prev[j]) THEN i ELSE j
      b == IF a = i THEN j ELSE i
      A == VarsOf(prev[a])
      B == VarsOf(prev[b])
      S == (A \ B) \cup (B \ A)
  IN [L |-> Min2(S), R |-> Max2(S), D |-> A \cap B, pa |-> <<a, b>>]
\* Tree._check_constraint at the level being built
Constraint(e, f, level) == Cardinality(VarsOf(e) \cup VarsOf(f)) = level + 1

(* ============================ the C16 clauses, over a list of trees ========================= *)
Levels(trs) == 1..Len(trs)
NNodes(n, k) == n - k + 1                         \* tree k joins n-k+1 nodes with n-k edges
\* the two end points of an edge as node identifiers of its own tree
Ends(e, k) == IF k = 1 THEN {e.L, e.R} ELSE {e.pa[1], e.pa[2]}
NodeSet(n, k) == IF k = 1 THEN 0..(n - 1) ELSE 1..(n - k + 1)

RECURSIVE Reach(_, _, _)
Reach(tree, k, S) == LET T == S \cup UNION {Ends(tree[i], k) : i \in {j \in DOMAIN tree : Ends(tree[j], k) \cap S # {}}}
                     IN IF T = S THEN S ELSE Reach(tree, k, T)

EdgeCountOK(trs, n) == \A k \in Levels(trs) : Len(trs[k]) = n - k
SpanningOK(trs, n) ==
  \A k \in Levels(trs) :
    /\ \A i \in DOMAIN trs[k] : Cardinality(Ends(trs[k][i], k)) = 2 /\ Ends(trs[k][i], k) \subseteq NodeSet(n, k)
    /\ Len(trs[k]) = n - k
    /\ Reach(trs[k], k, {Min2(NodeSet(n, k))}) = NodeSet(n, k)          \* connected with nodes-1 edges => a tree
ProximityOK(trs) ==
  \A k \in Levels(trs) : k >= 2 =>
    \A i \in DOMAIN trs[k] :
      LET p == trs[k-1][trs[k][i].pa[1]]
          q == trs[k-1][trs[k][i].pa[2]]
      IN Ends(p, k - 1) \cap Ends(q, k - 1) # {}
SetsOK(trs) ==
  \A k \in Levels(trs) : \A i \in DOMAIN trs[k] :
    LET e == trs[k][i] IN
    /\ e.L < e.R /\ e.L \notin e.D /\ e.R \notin e.D
    /\ Cardinality(e.D) = k - 1
    /\ k >= 2 => LET A == VarsOf(trs[k-1][e.pa[1]])
                     B == VarsOf(trs[k-1][e.pa[2]])
                 IN e.D = A \cap B /\ {e.L, e.R} = (A \ B) \cup (B \ A)
AllPairs(trs) == [k \in Levels(trs) |-> [i \in DOMAIN trs[k] |-> <<trs[k][i].L, trs[k][i].R>>]]
NoPairTwice(trs) ==
  \A k1, k2 \in Levels(trs) : \A i \in DOMAIN trs[k1] : \A j \in DOMAIN trs[k2] :
    (k1 # k2 \/ i # j) => <<trs[k1][i].L, trs[k1][i].R>> # <<trs[k2][j].L, trs[k2][j].R>>
Degree(tree, k, v) == Cardinality({i \in DOMAIN tree : v \in Ends(tree[i], k)})
StarOK(trs, n) == \A k \in Levels(trs) : \E v \in NodeSet(n, k) : Degree(trs[k], k, v) = Len(trs[k])
PathOK(trs, n) == \A k \in Levels(trs) : \A v \in NodeSet(n, k) : Degree(trs[k], k, v) <= 2
DepthOK(trs, n, t) == Len(trs) = MaxI(1, MinI(n - 1, t))

StructureOK(trs, n, vt) ==
  /\ EdgeCountOK(trs, n) /\ SpanningOK(trs, n) /\ ProximityOK(trs) /\ SetsOK(trs) /\ NoPairTwice(trs)
  /\ (vt = "center" => StarOK(trs, n))
  /\ (vt = "direct" => PathOK(trs, n))

\* first tree of a regular vine: maximum spanning tree of the weights w (cut property, ties allowed).
\* w is a function on pairs <<a, b>> with a < b.
W(w, a, b) == w[MinI(a, b) + 1][MaxI(a, b) + 1]
Without(tree, i) == [j \in 1..(Len(tree) - 1) |-> IF j < i THEN tree[j] ELSE tree[j + 1]]
MaxSpanningOK(tree, n, w) ==
  \A i \in DOMAIN tree :
    LET e == tree[i]
        side == Reach(Without(tree, i), 1, {e.L})
    IN \A x \in side : \A y \in (0..(n - 1)) \ side : W(w, e.L, e.R) >= W(w, x, y)

(* ================================== the builders ========================================== *)
VARIABLES trees,     \* completed trees
          cur,       \* edges of the tree under construction
          visited,   \* regular: visited node set; center: nodes already attached; direct: the node path (sequence)
          done
vars == <<trees, cur, visited, done>>
Level == Len(trees) + 1
Prev == trees[Len(trees)]
Target == MaxI(1, MinI(N - 1, Trunc))

Init == trees = <<>> /\ cur = <<>> /\ done = FALSE /\
        visited = IF VType = "direct" THEN <<>> ELSE {}

(* ---- regular ------------------------------------------------------------------------------- *)
\* node ids: variables 0..N-1 at level 1, positions 1..n of the previous tree above
RegNodes == IF Level = 1 THEN 0..(N - 1) ELSE 1..Len(Prev)
RegStart == IF Level = 1 THEN 0 ELSE 1
RegCands == {c \in RegNodes \X RegNodes :
               /\ c[1] \in visited /\ c[2] \notin visited
               /\ (Level >= 2 => Constraint(Prev[c[1]], Prev[c[2]], Level))}
RegularBegin == /\ VType = "regular" /\ ~done /\ visited = {} /\ visited' = {RegStart} /\ UNCHANGED <<trees, cur, done>>
RegularPrimStep ==
  /\ VType = "regular" /\ ~done /\ visited # {} /\ visited # RegNodes /\ RegCands # {}
  /\ \E c \in RegCands :
       /\ cur' = Append(cur, IF Level = 1 THEN FirstEdge(c[1], c[2]) ELSE Child(Prev, c[1], c[2]))
       /\ visited' = visited \cup {c[2]}
  /\ UNCHANGED <<trees, done>>
\* the `len(adj_set) == 0` branch: a node is marked visited without an edge
RegularNoCandidate ==
  /\ VType = "regular" /\ ~done /\ visited # {} /\ visited # RegNodes /\ RegCands = {}
  /\ visited' = visited \cup {Min2(RegNodes \ visited)}
  /\ UNCHANGED <<trees, cur, done>>
RegularTreeDone == VType = "regular" /\ visited = RegNodes

(* ---- center -------------------------------------------------------------------------------- *)
\* level 1: star on variable 0; level k: every other edge of the previous tree joined with its first edge
CenNodes == IF Level = 1 THEN 1..(N - 1) ELSE 2..Len(Prev)
CenterStep ==
  /\ VType = "center" /\ ~done /\ visited # CenNodes
  /\ \E r \in CenNodes \ visited :
       /\ cur' = Append(cur, IF Level = 1 THEN FirstEdge(0, r) ELSE Child(Prev, 1, r))
       /\ visited' = visited \cup {r}
  /\ UNCHANGED <<trees, done>>
CenterTreeDone == VType = "center" /\ visited = CenNodes

(* ---- direct -------------------------------------------------------------------------------- *)
\* level 1: a path grown from <<l, 0, r>> at either end; level k: consecutive edges of the previous tree
DirectSeed ==
  /\ VType = "direct" /\ ~done /\ Level = 1 /\ visited = <<>>
  /\ IF N = 2 THEN visited' = <<1, 0>>
     ELSE \E l, r \in 1..(N - 1) : l # r /\ visited' = <<l, 0, r>>
  /\ UNCHANGED <<trees, cur, done>>
DirectExtend ==
  /\ VType = "direct" /\ ~done /\ Level = 1 /\ visited # <<>> /\ Len(visited) < N
  /\ \E v \in (0..(N - 1)) \ Range(visited) :
       \/ visited' = <<v>> \o visited
       \/ visited' = Append(visited, v)
  /\ UNCHANGED <<trees, cur, done>>
DirectLay ==              \* the edges of the first tree, once the path is complete
  /\ VType = "direct" /\ ~done /\ Level = 1 /\ Len(visited) = N /\ cur = <<>>
  /\ cur' = [k \in 1..(N - 1) |-> FirstEdge(visited[k], visited[k + 1])]
  /\ UNCHANGED <<trees, visited, done>>
DirectKth ==
  /\ VType = "direct" /\ ~done /\ Level >= 2 /\ cur = <<>> /\ visited = <<>>
  /\ cur' = [k \in 1..(Len(Prev) - 1) |-> Child(Prev, k, k + 1)]
  /\ visited' = <<0>>                                      \* marks "laid"
  /\ UNCHANGED <<trees, done>>
DirectTreeDone == VType = "direct" /\ cur # <<>> /\ (Level = 1 => Len(visited) = N)

(* ---- closing a tree (train_vine's loop) ---------------------------------------------------- *)
TreeDone == RegularTreeDone \/ CenterTreeDone \/ DirectTreeDone
CloseTree ==
  /\ ~done /\ TreeDone
  /\ trees' = Append(trees, cur)
  /\ cur' = <<>>
  /\ visited' = IF VType = "direct" THEN <<>> ELSE {}
  /\ done' = (Len(trees) + 1 = Target)

Next == RegularBegin \/ RegularPrimStep \/ RegularNoCandidate \/ CenterStep
        \/ DirectSeed \/ DirectExtend \/ DirectLay \/ DirectKth \/ CloseTree
Spec == Init /\ [][Next]_vars

(* ---- invariants of the design --------------------------------------------------------------- *)
ClosedTreesOK == StructureOK(trees, N, VType)
FinalDepthOK == done => DepthOK(trees, N, Trunc)
\* the no-candidate branch of the regular builder is dead code: proximity always leaves a candidate
NoCandidateNeverEnabled == ~ENABLED RegularNoCandidate
\* the code's variable-count test coincides with proximity on every pair it is asked about
ConstraintIsProximity ==
  (VType = "regular" /\ Level >= 2 /\ ~done) =>
     \A i, j \in 1..Len(Prev) : i # j =>
        (Constraint(Prev[i], Prev[j], Level) <=> Ends(Prev[i], Level - 1) \cap Ends(Prev[j], Level - 1) # {})
\* every pair of nodes a child edge is built from has a two-element symmetric difference (no unpack error)
ChildWellDefined ==
  (Level >= 2 /\ ~done) =>
     \A i \in DOMAIN cur : Cardinality((VarsOf(Prev[cur[i].pa[1]]) \ VarsOf(Prev[cur[i].pa[2]]))
                                       \cup (VarsOf(Prev[cur[i].pa[2]]) \ VarsOf(Prev[cur[i].pa[1]]))) = 2

Emit == done => PrintT(<<"VINE", trees>>)
=============================================================================
