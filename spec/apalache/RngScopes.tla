------------------------------- MODULE RngScopes -------------------------------
(***************************************************************************)
(* RandomStateMech restated for Apalache (typed, integers instead of        *)
(* sequences for generator states) so that the isolation property of C15     *)
(* can be discharged as an INDUCTIVE invariant, i.e. without the bounds on   *)
(* the number of draws and calls that the TLC configurations need:           *)
(*                                                                           *)
(*   apalache-mc check --init=IndInit --inv=IndInv --length=1 RngScopes.tla   *)
(*   apalache-mc check --init=Init    --inv=IndInv --length=0 RngScopes.tla   *)
(*   apalache-mc check --init=IndInit --inv=Isolation --length=0 RngScopes.tla*)
(*                                                                           *)
(* (IndInv is preserved by every step from every state that satisfies it,    *)
(* holds initially, and implies Isolation.)  What stays bounded: the nesting  *)
(* depth of scopes (<= 3, the bound of Gen) and the number of models (3).     *)
(*                                                                           *)
(* A generator state is a pair <<stream, position>>: stream 0 is the          *)
(* process-wide generator's own stream, stream k > 0 the stream of the seed   *)
(* of model k, stream 100 + s that of an ad hoc seed s; a draw advances the   *)
(* position.  NoGen = <<-1, 0>> stands for "the model has no generator".      *)
(* The actions are those of RandomStateMech (Enter, EnterScratch, Draw,       *)
(* Raise, Exit, UserDraw) with UseFinally = WritesBack = TRUE.                *)
(***************************************************************************)
EXTENDS Integers, Sequences, Apalache

Models == {1, 2, 3}
MaxDepth == 3

VARIABLES
  \* @type: <<Int, Int>>;
  G,
  \* @type: Int -> <<Int, Int>>;
  M,
  \* @type: Seq({o: Int, saved: <<Int, Int>>, entry: <<Int, Int>>});
  stack,
  \* @type: Bool;
  exc,
  \* @type: <<Int, Int>>;
  user

\* @type: <<Int, Int>>;
NoGen == <<-1, 0>>
\* @type: (<<Int, Int>>) => <<Int, Int>>;
Adv(t) == <<t[1], t[2] + 1>>
\* @type: (<<Int, Int>>) => Bool;
IsGen(t) == t[1] >= 0 /\ t[2] >= 0

Init ==
  /\ G = <<0, 0>>
  /\ M \in [Models -> {NoGen, <<1, 0>>, <<2, 0>>, <<3, 0>>}]
  /\ \A o \in Models : M[o] = NoGen \/ M[o] = <<o, 0>>
  /\ stack = <<>> /\ exc = FALSE /\ user = G

Swapped == \E i \in DOMAIN stack : stack[i].saved /= NoGen

Enter(o) ==
  /\ ~exc /\ Len(stack) < MaxDepth
  /\ \A i \in DOMAIN stack : stack[i].o /= o
  /\ IF M[o] = NoGen
     THEN /\ stack' = Append(stack, [o |-> o, saved |-> NoGen, entry |-> NoGen])
          /\ G' = G
     ELSE /\ stack' = Append(stack, [o |-> o, saved |-> G, entry |-> M[o]])
          /\ G' = M[o]
  /\ UNCHANGED <<M, exc, user>>

EnterScratch(s) ==
  /\ ~exc /\ Len(stack) < MaxDepth
  /\ stack' = Append(stack, [o |-> 0, saved |-> G, entry |-> <<100 + s, 0>>])
  /\ G' = <<100 + s, 0>>
  /\ UNCHANGED <<M, exc, user>>

Draw ==
  /\ ~exc
  /\ G' = Adv(G)
  /\ user' = IF Swapped THEN user ELSE Adv(user)
  /\ UNCHANGED <<M, stack, exc>>

Raise ==
  /\ ~exc /\ Len(stack) > 0
  /\ exc' = TRUE
  /\ UNCHANGED <<G, M, stack, user>>

Exit ==
  /\ Len(stack) > 0
  /\ LET f == stack[Len(stack)] IN
       IF f.saved = NoGen
       THEN G' = G /\ M' = M
       ELSE /\ G' = f.saved
            /\ M' = IF f.o /= 0 THEN [M EXCEPT ![f.o] = G] ELSE M
  /\ stack' = SubSeq(stack, 1, Len(stack) - 1)
  /\ exc' = (exc /\ Len(stack) > 1)
  /\ UNCHANGED user

\* the same step without the `finally` block: an exception leaves the swapped-in generator in place (what the code would be
\* without it) - used only for the non-vacuity run, which must find IndInv NOT inductive under NextNoFinally
ExitNoFinally ==
  /\ Len(stack) > 0
  /\ LET f == stack[Len(stack)] IN
       IF f.saved = NoGen \/ exc
       THEN G' = G /\ M' = M
       ELSE /\ G' = f.saved
            /\ M' = IF f.o /= 0 THEN [M EXCEPT ![f.o] = G] ELSE M
  /\ stack' = SubSeq(stack, 1, Len(stack) - 1)
  /\ exc' = (exc /\ Len(stack) > 1)
  /\ UNCHANGED user

UserDraw ==
  /\ Len(stack) = 0
  /\ G' = Adv(G) /\ user' = Adv(user)
  /\ UNCHANGED <<M, stack, exc>>

Next ==
  \/ \E o \in Models : Enter(o)
  \/ \E s \in {7, 42} : EnterScratch(s)
  \/ Draw \/ Raise \/ Exit \/ UserDraw

NextNoFinally ==
  \/ \E o \in Models : Enter(o)
  \/ \E s \in {7, 42} : EnterScratch(s)
  \/ Draw \/ Raise \/ ExitNoFinally \/ UserDraw

(* ---- the property and its inductive strengthening --------------------------------------------- *)
\* C15 isolation: between calls the global generator is exactly what the user's own draws made it
Isolation == Len(stack) = 0 => G = user

TypeOK ==
  /\ IsGen(G) /\ IsGen(user)
  /\ DOMAIN M = Models
  /\ \A o \in Models : M[o] = NoGen \/ IsGen(M[o])
  /\ Len(stack) <= MaxDepth
  /\ \A i \in DOMAIN stack :
       /\ stack[i].o \in Models \cup {0}
       /\ (stack[i].saved = NoGen \/ IsGen(stack[i].saved))
       /\ (stack[i].o = 0 => stack[i].saved /= NoGen)
  /\ (exc => Len(stack) > 0)

\* the saved generator of the lowest swapping frame is the user's generator; while no frame swaps, the running generator is
LowestSwapKeepsUser ==
  \A i \in DOMAIN stack :
     (stack[i].saved /= NoGen /\ \A j \in DOMAIN stack : j < i => stack[j].saved = NoGen) => stack[i].saved = user
NoSwapRunsOnUser == ~Swapped => G = user

IndInv == TypeOK /\ LowestSwapKeepsUser /\ NoSwapRunsOnUser

IndInit ==
  /\ G = Gen(1) /\ user = Gen(1) /\ exc \in BOOLEAN
  /\ M = Gen(3)
  /\ stack = Gen(3)
  /\ IndInv
=============================================================================
