------------------------------ MODULE ClosedFormFit ------------------------------
(***************************************************************************)
(* C04, exact part: the closed-form estimators.  For every multiset of small  *)
(* integers (the training sample) the sufficient statistics are integers:     *)
(*   Gaussian:  n * loc = sum x ;  n^2 * scale^2 = n * sum x^2 - (sum x)^2     *)
(*              (population standard deviation, ddof = 0)                      *)
(*   Uniform :  loc = min x ;  scale = max x - min x                           *)
(* The harness fits the real models on exactly these samples (in a shuffled   *)
(* order) and checks the identities to 1e-9.  The state machine enumerates    *)
(* non-decreasing sequences (one per multiset).                               *)
(***************************************************************************)
EXTENDS Integers, Sequences, FiniteSets, TLC
CONSTANTS MaxVal, MaxLen
VARIABLES xs, done
vars == <<xs, done>>
Sorted(s) == \A i \in 1..(Len(s) - 1) : s[i] <= s[i + 1]
Samples == UNION {{s \in [1..n -> 0..MaxVal] : Sorted(s) /\ s[1] # s[n]} : n \in 2..MaxLen}
Init == xs \in Samples /\ done = FALSE
Next == ~done /\ done' = TRUE /\ UNCHANGED xs
Spec == Init /\ [][Next]_vars
RECURSIVE Sum(_, _)
Sum(s, i) == IF i > Len(s) THEN 0 ELSE s[i] + Sum(s, i + 1)
SumSq(s) == Sum([i \in DOMAIN s |-> s[i] * s[i]], 1)
N == Len(xs)
S1 == Sum(xs, 1)
VarNum == N * SumSq(xs) - S1 * S1              \* n^2 * population variance
Lo == xs[1]
Range == xs[N] - xs[1]
VarianceNonNegative == VarNum > 0 /\ Range > 0        \* at least two distinct values
\* Cauchy-Schwarz in integers: the population variance never exceeds (range/2)^2 -> 4 VarNum <= n^2 Range^2
PopovicoBound == 4 * VarNum <= N * N * Range * Range
Emit == ~done => PrintT(<<"CASE", [xs |-> xs, n |-> N, s1 |-> S1, varnum |-> VarNum, lo |-> Lo, range |-> Range]>>)
=============================================================================
