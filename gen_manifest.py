"""Writes MANIFEST.json from the table below and validates it (and any evidence files) against the schemas."""
import json, os, subprocess, sys
HERE = os.path.dirname(os.path.abspath(__file__))
PROPS = [json.loads(l) for l in open(os.path.join(HERE, 'properties.jsonl'))]
MC, EX = 'model_checking', 'exploration'
CHECKS = {
 'C15': dict(cat=MC, ref='DESIGN.md 5.1, 5.2, 8 (C15)',
   technique='TLA+ Session + RandomStateMech specs model-checked by TLC; TLC-generated behaviours replayed on every sampler class; logs of the real calls validated by TLC against the spec (SessionTrace)',
   text='Every behaviour of the Session specification over the RNG alphabet (sample / failing sample / set_random_state / global seed / global draw / refit, 2 objects, seeded or not, int or RandomState seeds) up to the tier bound is executed on real objects of all 18 sampler bindings; after each call the global and per-model MT19937 states and the result are compared with the specification state by TLC. The swap-in/swap-out mechanism is model-checked for all nestings and raise points and replayed on copulas.utils. Exhaustive for short histories, simulated for longer ones: right for a history/interleaving property whose defects manifest within 2-3 calls.',
   note='Trusted: TLC, the projection (full generator state fingerprint), deep copies of once-fitted set-up models. Histories longer than the bound are only sampled.'),
}
NOT_YET = 'check not built yet in this round (machinery is being extended property by property; see DESIGN.md section 14)'
def main():
    checks = []
    for p in PROPS:
        c = CHECKS.get(p['id'])
        if not c: continue
        checks.append({'property_id': p['id'], 'quick_cmd': './check %s --tier quick' % p['id'],
            'thorough_cmd': './check %s --tier thorough' % p['id'], 'evidence_file': 'evidence/%s.json' % p['id'],
            'replay_cmd_template': './check %s --replay {path}' % p['id'], 'engine': 'tlc+replay',
            'level_claimed': {'category': c['cat'], 'text': c['text'], 'design_ref': c['ref']},
            'level_note': c['note'], 'technique': c['technique']})
    m = {'version': 1, 'setup_cmd': './setup.sh',
         'hooks': {'guard': 'COPULAS_VERIF', 'enable': 'no source hooks: observation is out-of-tree (public API, numpy.random module attributes); ./check sets COPULAS_VERIF=1 for its own recorder only',
                   'baseline_off_cmd': '/venv/bin/python baseline_check.py', 'source_commits': [], 'add_only': True},
         'engines': [{'name': 'tlc+replay', 'path': 'harness/', 'serves_properties': [c['property_id'] for c in checks],
                      'kind_free_text': 'TLA+ specifications (spec/*.tla) checked by TLC 1.8; Python harness replays TLC-generated behaviours on the library and has TLC validate logs/observation tables of the real code'}],
         'checks': checks,
         'notes': 'Exit codes: 0 held, 1 violation (VIOLATION lines), 2 machinery failure. known_findings.json lists open and fixed findings.',
         'not_applicable': [{'property_id': p['id'], 'reason': NOT_YET} for p in PROPS if p['id'] not in CHECKS]}
    json.dump(m, open(os.path.join(HERE, 'MANIFEST.json'), 'w'), indent=1)
    code = r'''
import json, sys, glob, jsonschema
m = json.load(open("MANIFEST.json")); jsonschema.validate(m, json.load(open("/root/.vp/MANIFEST.schema.json")))
s = json.load(open("/root/.vp/EVIDENCE.schema.json")); bad = 0
for f in sorted(glob.glob("evidence/C*.json")):
    try: jsonschema.validate(json.load(open(f)), s)
    except Exception as e: print("INVALID", f, str(e)[:300]); bad = 1
print("manifest ok; checks:", len(m["checks"]), "not_applicable:", len(m.get("not_applicable", []))); sys.exit(bad)
'''
    sys.exit(subprocess.call(['python3-vt', '-c', code], cwd=HERE))
if __name__ == '__main__':
    main()
