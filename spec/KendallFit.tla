------------------------------- MODULE KendallFit -------------------------------
(***************************************************************************)
(* C10 / C11: what Bivariate.fit and select_copula must decide, computed      *)
(* exactly in integers.                                                       *)
(*                                                                            *)
(* Input: two columns given by integer ranks (equal ranks = ties).  Kendall's *)
(* tau-b is S / sqrt(D1 * D2) with S = concordant - discordant pairs,         *)
(* D1 = n0 - (tied pairs in x), D2 = n0 - (tied pairs in y), n0 = n(n-1)/2.    *)
(* The specification never takes the square root: every decision (sign of     *)
(* tau, tau = 1, tau undefined) is a comparison of integers, and without ties *)
(* theta itself is an exact rational.                                         *)
(*                                                                            *)
(* A case is chosen in Init; Fit(fam) is the call; the invariant says a model *)
(* is never left silently invalid.  Emit hands every case with its verdict to *)
(* the harness, which runs the real fit / select_copula on pseudo-observations*)
(* with exactly these ranks.                                                  *)
(***************************************************************************)
EXTENDS Integers, Sequences, FiniteSets, TLC, Json, IOUtils

CONSTANTS MaxN,         \* permutations of 1..n for n = 2..MaxN  (no ties)
          TieLen,       \* tie cases: sorted x and arbitrary y of length 2..TieLen over 1..TieAlpha
          TieAlpha

Families == {"CLAYTON", "FRANK", "GUMBEL"}

Sign(a) == IF a > 0 THEN 1 ELSE IF a < 0 THEN -1 ELSE 0
Pairs(n) == {p \in (1..n) \X (1..n) : p[1] < p[2]}
Prod(x, y, p) == Sign(x[p[2]] - x[p[1]]) * Sign(y[p[2]] - y[p[1]])
SOf(x, y) == Cardinality({p \in Pairs(Len(x)) : Prod(x, y, p) = 1}) - Cardinality({p \in Pairs(Len(x)) : Prod(x, y, p) = -1})
TiedPairs(x) == Cardinality({p \in Pairs(Len(x)) : x[p[1]] = x[p[2]]})
N0(x) == (Len(x) * (Len(x) - 1)) \div 2
D1Of(x) == N0(x) - TiedPairs(x)

\* ---- what each family must do with (S, D1, D2) ---------------------------------------------------
Undefined(d1, d2) == d1 = 0 \/ d2 = 0                      \* a constant column: tau is NaN
TauIsOne(s, d1, d2) == s > 0 /\ s * s = d1 * d2
TauIsMinusOne(s, d1, d2) == s < 0 /\ s * s = d1 * d2
\* verdict: "refuse" (ValueError) or "accept"; for accept the admissible-set membership is implied
Verdict(fam, s, d1, d2) ==
  IF Undefined(d1, d2) THEN "refuse"
  ELSE CASE fam = "CLAYTON" -> IF s <= 0 THEN "refuse" ELSE "accept"         \* theta = 2 tau / (1 - tau) in (0, inf]
         [] fam = "GUMBEL"  -> IF s < 0 \/ TauIsOne(s, d1, d2) THEN "refuse" ELSE "accept"   \* theta = 1 / (1 - tau) in [1, inf)
         [] fam = "FRANK"   -> IF s = 0 THEN "refuse-or-tiny" ELSE "accept"  \* theta != 0 solves the Debye relation
\* exact theta when there are no ties (tau = s / n0): <<numerator, denominator>>, <<1, 0>> = infinity
ThetaRational(fam, s, n0) ==
  CASE fam = "CLAYTON" -> IF s = n0 THEN <<1, 0>> ELSE <<2 * s, n0 - s>>
    [] fam = "GUMBEL"  -> <<n0, n0 - s>>
    [] OTHER -> <<0, 0>>

\* ---- C11: what select_copula may return -----------------------------------------------------------
Candidates(s, d1, d2) ==
  IF s <= 0 THEN {"FRANK"}
  ELSE {"FRANK"} \cup {f \in {"CLAYTON", "GUMBEL"} : Verdict(f, s, d1, d2) = "accept"}

\* ---- the case space as a state machine ------------------------------------------------------------
VARIABLES x, y, fam, status, theta
vars == <<x, y, fam, status, theta>>

Perms(n) == {p \in [1..n -> 1..n] : \A i, j \in 1..n : i # j => p[i] # p[j]}
Sorted(s) == \A i \in 1..(Len(s) - 1) : s[i] <= s[i + 1]
NoTieCases == UNION {{<<[i \in 1..n |-> i], p>> : p \in Perms(n)} : n \in 2..MaxN}
TieCases == UNION {{<<a, b>> : a \in {s \in [1..n -> 1..TieAlpha] : Sorted(s)}, b \in [1..n -> 1..TieAlpha]} : n \in 2..TieLen}

\* longer columns chosen by the harness (random ranks, with and without ties): [x, y] records
Given == JsonDeserialize(IOEnv.KENDALL_CASES)
GivenCases == {<<Given[i].x, Given[i].y>> : i \in DOMAIN Given}

Init == /\ \E c \in NoTieCases \cup TieCases \cup GivenCases : x = c[1] /\ y = c[2]
        /\ fam = "none" /\ status = "unfitted" /\ theta = <<0, 0>>

Fit(f) ==
  /\ status = "unfitted" /\ fam' = f
  /\ LET s == SOf(x, y) d1 == D1Of(x) d2 == D1Of(y) v == Verdict(f, s, d1, d2) IN
     /\ status' = IF v = "refuse" THEN "refused" ELSE "fitted"
     /\ theta' = IF v = "refuse" THEN <<0, 0>>
                 ELSE IF TiedPairs(x) = 0 /\ TiedPairs(y) = 0 THEN ThetaRational(f, s, N0(x)) ELSE <<0, 0>>
  /\ UNCHANGED <<x, y>>
Next == \E f \in Families : Fit(f)
Spec == Init /\ [][Next]_vars

\* C10: a model that reports "fitted" carries an admissible parameter
NeverSilentlyInvalid ==
  status = "fitted" /\ theta # <<0, 0>> =>
     CASE fam = "CLAYTON" -> theta[2] = 0 \/ (theta[1] > 0 /\ theta[2] > 0)
       [] fam = "GUMBEL"  -> theta[2] > 0 /\ theta[1] >= theta[2]
       [] OTHER -> TRUE
RefusalIsJustified ==
  status = "refused" => (Undefined(D1Of(x), D1Of(y)) \/ SOf(x, y) < 0 \/ (fam = "CLAYTON" /\ SOf(x, y) = 0)
                         \/ (fam = "GUMBEL" /\ TauIsOne(SOf(x, y), D1Of(x), D1Of(y))))
\* C11: the candidate set always contains Frank, and for tau <= 0 nothing else
FrankAlwaysCandidate == "FRANK" \in Candidates(SOf(x, y), D1Of(x), D1Of(y))

Emit == status = "unfitted" =>
  PrintT(<<"CASE", [x |-> x, y |-> y, s |-> SOf(x, y), d1 |-> D1Of(x), d2 |-> D1Of(y), n0 |-> N0(x),
                    verdict |-> [f \in Families |-> Verdict(f, SOf(x, y), D1Of(x), D1Of(y))],
                    theta |-> [f \in Families |-> IF TiedPairs(x) = 0 /\ TiedPairs(y) = 0 /\ Verdict(f, SOf(x, y), D1Of(x), D1Of(y)) = "accept"
                                                 THEN ThetaRational(f, SOf(x, y), N0(x)) ELSE <<0, 0>>],
                    cands |-> Candidates(SOf(x, y), D1Of(x), D1Of(y))]>>)
=============================================================================
