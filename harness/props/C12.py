"""C12  Conditional sampling fixes the given columns and follows the conditional law."""
import itertools
import json
import warnings
from multiprocessing import Pool

import numpy as np
import pandas as pd

from .. import accept as A
from .. import project as P

LEVEL = 'model_checking'
warnings.simplefilter('ignore')
CFG = ('SPECIFICATION Spec\nCONSTANTS\n  Dim = %d\n  Q = %d\n  Mags = %s\nINVARIANT DetPositive\nINVARIANT SchurSymmetric\n'
       'INVARIANT SchurDiagonalPositive\nINVARIANT SchurVarianceShrinks\nINVARIANT Emit\nCHECK_DEADLOCK FALSE\n')
NAMES = ['m3', 'a1', 'z9', 'c2', 'k5', 'b7']       # deliberately not in alphabetical order

_MODELS = {}


def model(d):
    """a Gaussian copula with Gaussian marginals fitted on a d-column table (cached per process)"""
    if d not in _MODELS:
        from copulas.multivariate import GaussianMultivariate
        from copulas.univariate import GaussianUnivariate
        rs = np.random.RandomState(40 + d)
        z = rs.normal(size=(80, d))
        for j in range(1, d):
            z[:, j] = 0.6 * z[:, j - 1] + 0.8 * z[:, j]
        df = pd.DataFrame(z * np.arange(1, d + 1) + np.arange(d) * 3.0, columns=NAMES[:d])
        m = GaussianMultivariate(distribution=GaussianUnivariate)
        m.fit(df)
        _MODELS[d] = (m, df)
    return _MODELS[d]


class Recorder(object):
    """out-of-tree observation of the parameters handed to numpy's multivariate normal sampler"""

    def __enter__(self):
        self.calls = []
        self.draws = []
        self.orig = np.random.multivariate_normal

        def wrapped(mean, cov, size=None, *a, **k):
            self.calls.append((np.array(mean, dtype=float), np.array(cov, dtype=float), size))
            drawn = self.orig(mean, cov, size, *a, **k)
            self.draws.append(np.array(drawn, dtype=float))
            return drawn
        np.random.multivariate_normal = wrapped
        return self

    def __exit__(self, *exc):
        np.random.multivariate_normal = self.orig


def _exact(case):
    """the implementation's conditional parameters vs the specification's exact rationals"""
    import copy
    from scipy import stats
    from copulas.utils import EPSILON
    d = len(case['R'])
    m0, df = model(d)
    m = copy.deepcopy(m0)
    cols = NAMES[:d]
    R = np.array(case['R'], dtype=float) / case['q']
    m.correlation = pd.DataFrame(R, index=cols, columns=cols)
    cond = [c - 1 for c in case['cond']]
    free = [f - 1 for f in case['free']]
    rs = np.random.RandomState(sum(case['cond']) * 31 + d)
    probs = []
    for container in ('dict', 'series', 'dict-reversed', 'series-reversed'):
        vals = {}
        for j in cond:
            col = df[cols[j]]
            k = rs.choice([-0.7, 0.4, 1.3, 6.0, -9.0])         # inside and far outside the training range
            vals[cols[j]] = float(col.mean() + k * col.std())
        if container.endswith('reversed'):          # conditions given in another order than the training columns
            vals = dict(reversed(list(vals.items())))
        conditions = dict(vals) if container.startswith('dict') else pd.Series(vals)
        fp0 = P.fp_arg(conditions)
        z = np.array([stats.norm.ppf(np.clip(m.univariates[j].cdf(np.array([vals[cols[j]]])), EPSILON, 1 - EPSILON))[0] for j in cond])
        try:
            with Recorder() as rec:
                m.set_random_state(3)
                out = m.sample(6, conditions=conditions)
        except Exception as ex:
            probs.append(('conditional-sample-raised-' + type(ex).__name__, container))
            continue
        if P.fp_arg(conditions) != fp0:
            probs.append(('conditions-object-modified', container))
        if list(out.columns) != cols or len(out) != 6 or out.isna().any().any():
            probs.append(('schema', container))
            continue
        for j in cond:
            if not np.all(out[cols[j]].to_numpy() == vals[cols[j]]):
                probs.append(('conditioned-column-not-equal-to-given-value', container))
        if not rec.calls:
            probs.append(('note:sampler-not-observed', container))
            continue
        mean, cov, size = rec.calls[-1]
        B = np.array(case['bnum'], dtype=float) / case['det']
        S = np.array(case['snum'], dtype=float) / case['sden']
        # the library orders the free columns as pandas' Index.difference does (sorted by name)
        order = sorted(range(len(free)), key=lambda i: cols[free[i]])
        emean = (B @ z)[order]
        ecov = S[np.ix_(order, order)]
        if mean.shape != emean.shape or not np.allclose(mean, emean, rtol=1e-9, atol=1e-10):
            probs.append(('conditional-mean-is-not-S12-S22inv-z', '%s got %s expected %s' % (container, mean.tolist(), emean.tolist())))
        if cov.shape != ecov.shape or not np.allclose(cov, ecov, rtol=1e-9, atol=1e-10):
            probs.append(('conditional-covariance-is-not-the-Schur-complement', '%s got %s expected %s' % (container, cov.tolist(), ecov.tolist())))
        elif not np.allclose(cov, cov.T, atol=1e-12) or np.min(np.linalg.eigvalsh((cov + cov.T) / 2)) < -1e-10:
            probs.append(('conditional-covariance-not-symmetric-psd', container))
        # the free columns of the answer are the marginal quantiles of the normal scores that were drawn - also far out in the
        # tails, where a condition several deviations outside the training range puts them (compared as probabilities)
        Zd = rec.draws[-1].reshape(6, -1) if rec.draws and rec.draws[-1].size == 6 * len(free) else None
        if Zd is not None:
            for a, i in enumerate(order):
                j = free[i]
                got = np.asarray(m.univariates[j].cdf(out[cols[j]].to_numpy()), dtype=float)
                want = stats.norm.cdf(Zd[:, a])
                tail = np.minimum(want, 1.0 - want)
                if np.any(np.abs(got - want) > 1e-9 + 1e-6 * tail):
                    probs.append(('free-column-is-not-the-marginal-quantile-of-its-normal-score', '%s column %s: %s vs %s' % (container, cols[j], got.tolist(), want.tolist())))
                    break
    return probs


def _schema(job):
    d, cond, container, kmul, n = job
    m, df = model(d)
    cols = NAMES[:d]
    vals = {cols[j]: float(df[cols[j]].mean() + kmul * df[cols[j]].std() * (1 + 0.1 * j)) for j in cond}
    if container == 'dict-reversed':
        vals = dict(reversed(list(vals.items())))
    if container == 'dict-zero':                     # a condition value that is exactly 0 (0.0 and the integer 0) is a value
        vals = {c: (0.0 if i % 2 else 0) for i, c in enumerate(vals)}
    if container == 'dict-int':                      # integer-valued conditions (a dict the library might be tempted to normalise in place)
        vals = {c: int(round(v)) for c, v in vals.items()}
    conditions = pd.Series(vals) if container == 'series' else dict(vals)
    fp0 = P.fp_arg(conditions)
    probs = []
    try:
        m.set_random_state(11)
        out = m.sample(n, conditions=conditions)
    except Exception as ex:
        return [('conditional-sample-raised-' + type(ex).__name__, container)]
    if P.fp_arg(conditions) != fp0:
        probs.append(('conditions-object-modified', container))
    if list(out.columns) != cols:
        probs.append(('columns-not-in-training-order', container))
    elif len(out) != n:
        probs.append(('row-count', container))
    else:
        if out.isna().any().any() or not np.isfinite(out.to_numpy(dtype=float)).all():
            probs.append(('missing-or-non-finite-values', container))
        for c, v in vals.items():
            if not np.all(out[c].to_numpy() == v):
                probs.append(('conditioned-column-not-equal-to-given-value', container))
                break
    return probs


def _refit(job):
    """an instance with a past: fitted to one table and sampled conditionally, then fitted to a table with another dependence and
    sampled again on the same columns - the parameters handed to numpy must be those of the correlation the model carries now"""
    from scipy import stats
    from copulas.multivariate import GaussianMultivariate
    from copulas.univariate import GaussianUnivariate
    from copulas.utils import EPSILON
    d, cond, seed = job
    cols = NAMES[:d]
    rs = np.random.RandomState(seed)
    probs = []
    m = GaussianMultivariate(distribution=GaussianUnivariate)
    for life in range(2):
        z = rs.normal(size=(70, d))
        for j in range(1, d):
            z[:, j] = (0.7 if life == 0 else -0.6) * z[:, j - 1] + 0.7 * z[:, j]
        df = pd.DataFrame(z, columns=cols)
        m.fit(df)
        vals = {cols[j]: float(df[cols[j]].iloc[j] + 0.3) for j in cond}
        try:
            with Recorder() as rec:
                m.set_random_state(5)
                m.sample(3, conditions=dict(vals))
        except Exception as ex:
            return [('conditional-sample-raised-' + type(ex).__name__, 'life %d' % life)]
        if not rec.calls:
            continue
        mean, cov, size = rec.calls[-1]
        R = m.correlation.to_numpy()
        free = sorted([j for j in range(d) if j not in cond], key=lambda j: cols[j])
        zc = np.array([stats.norm.ppf(np.clip(m.univariates[j].cdf(np.array([vals[cols[j]]])), EPSILON, 1 - EPSILON))[0] for j in cond])
        S11, S12, S22 = R[np.ix_(free, free)], R[np.ix_(free, list(cond))], R[np.ix_(list(cond), list(cond))]
        emean = S12 @ np.linalg.solve(S22, zc)
        ecov = S11 - S12 @ np.linalg.solve(S22, S12.T)
        if mean.shape != emean.shape or not np.allclose(mean, emean, rtol=1e-8, atol=1e-9):
            probs.append(('conditional-mean-is-not-S12-S22inv-z', 'after-refit' if life else 'first-fit'))
        if cov.shape != ecov.shape or not np.allclose(cov, ecov, rtol=1e-8, atol=1e-9):
            probs.append(('conditional-covariance-is-not-the-Schur-complement', 'after-refit' if life else 'first-fit'))
    return probs


def _law(job):
    """fallback / cross-check: the conditional law in normal-score space on a large sample"""
    from scipy import stats
    from copulas.utils import EPSILON
    d, cond, seed, n = job
    m, df = model(d)
    cols = NAMES[:d]
    vals = {cols[j]: float(df[cols[j]].mean() + 0.8 * df[cols[j]].std()) for j in cond}
    m.set_random_state(seed)
    out = m.sample(n, conditions=vals)
    free = [j for j in range(d) if j not in cond]
    Z = np.column_stack([stats.norm.ppf(np.clip(m.univariates[j].cdf(out[cols[j]].to_numpy()), EPSILON, 1 - EPSILON)) for j in free])
    R = m.correlation.to_numpy()
    z = np.array([stats.norm.ppf(np.clip(m.univariates[j].cdf(np.array([vals[cols[j]]])), EPSILON, 1 - EPSILON))[0] for j in cond])
    S11, S12, S22 = R[np.ix_(free, free)], R[np.ix_(free, cond)], R[np.ix_(cond, cond)]
    mu = S12 @ np.linalg.solve(S22, z)
    sig = S11 - S12 @ np.linalg.solve(S22, S12.T)
    recs = []
    for a, j in enumerate(free):
        se = np.sqrt(sig[a, a] / n)
        recs.append(A.band('d=%d|cond=%s|mean[%s]' % (d, cond, cols[j]), Z[:, a].mean(), mu[a], 7 * se + 1e-3))
        recs.append(A.band('d=%d|cond=%s|var[%s]' % (d, cond, cols[j]), Z[:, a].var(), sig[a, a], 7 * sig[a, a] * np.sqrt(2.0 / n) + 1e-3))
    C = np.cov(Z.T).reshape(len(free), len(free))
    for a in range(len(free)):
        for b in range(a + 1, len(free)):
            recs.append(A.band('d=%d|cond=%s|cov[%s,%s]' % (d, cond, cols[free[a]], cols[free[b]]), C[a, b], sig[a, b],
                               7 * np.sqrt((sig[a, a] * sig[b, b] + sig[a, b] ** 2) / n) + 1e-3))
    return recs


def run(ctx):
    quick = ctx.tier == 'quick'
    ctx.rule = ('(a) TLC (CondGauss) enumerates every positive-definite correlation matrix with entries k/4 (d=2,3: k in -3..3; d=4: k in {-2,0,2}; d=3 also k/64 with k in {0, +-24, +-32, +-63}: nearly duplicated columns) '
                'x every non-empty proper conditioning subset and computes conditional mean coefficients and Schur complement as exact rationals; the '
                'real sampler is run on a model carrying that matrix with dict and Series conditions (values inside and far outside the training '
                'range) and the (mean, cov) it hands to numpy are compared with the rationals; (b) every conditioning subset for d = 2..6 x '
                'dict / reversed dict / Series x inside / outside range x n in {1, 5}: schema, conditioned columns, unchanged conditions object; '
                '(c) the conditional law on large samples (TLC Acceptance bands); (d) instances fitted twice (different dependence) and sampled conditionally on the same columns after each fit: parameters observed at numpy equal those of the current correlation.  non-trivial = every case; distinct by content')
    ctx.assumptions = ['the model is given its correlation through the public attribute `correlation`',
                       'the sampler parameters are observed by wrapping numpy.random.multivariate_normal; if the library stops using it the '
                       'check falls back on the statistical law (c)',
                       'statistical bands are 7 standard errors + 1e-3']
    cases = []
    plans = [(2, 4, '{0, 1, 2, 3}'), (3, 4, '{0, 1, 2, 3}'), (4, 4, '{0, 2}')] if not quick else [(2, 4, '{0, 1, 2, 3}'), (3, 4, '{0, 1, 3}'), (4, 4, '{0, 2}')]
    plans.append((3, 64, '{0, 24, 32, 63}'))       # nearly duplicated columns (condition number 127) on which the third depends unequally
    if not quick:
        plans.append((3, 128, '{0, 40, 64, 127}'))         # condition number 255 (larger denominators overflow TLC's 32-bit integers)
    for d, q, mags in plans:
        r = ctx.tlc('CondGauss d=%d q=%d' % (d, q), 'CondGauss', CFG % (d, q, mags), workers=1, timeout=1500)
        cs = [c[0] for c in r.tagged('CASE')]
        if quick and d == 4:
            rs = np.random.RandomState(ctx.seed)
            cs = [cs[i] for i in sorted(rs.choice(len(cs), size=600, replace=False))]
        cases.extend(cs)
    sjobs = []
    for d in range(2, 7):
        for k in range(1, d):
            for cond in itertools.combinations(range(d), k):
                for container in ('dict', 'dict-reversed', 'dict-int', 'dict-zero', 'series'):
                    for kmul in (0.5, -8.0):
                        sjobs.append((d, cond, container, kmul, 5 if kmul > 0 else 1))
    ljobs = [(d, cond, ctx.seed + 7, 20000 if quick else 100000) for d, cond in
             ((2, (0,)), (3, (1,)), (3, (0, 2)), (4, (1, 2)), (5, (0,)), (6, (1, 3, 4)))]
    with Pool(16) as pool:
        rex = pool.map(_exact, cases, chunksize=16)
        rsc = pool.map(_schema, sjobs, chunksize=16)
        rlaw = pool.map(_law, ljobs, chunksize=1)
        fjobs = [(d, cond, ctx.seed + 3 * d + len(cond)) for d in (2, 3, 4) for k in range(1, d) for cond in itertools.combinations(range(d), k)]
        rref = pool.map(_refit, fjobs, chunksize=2)
    for job, probs in zip(fjobs, rref):
        ctx.case('refit|' + json.dumps(job))
        for p, detail in probs:
            ctx.violation('C12|refit|d=%d|%s|%s' % (job[0], p, detail), '%s (%s) conditioning on columns %s of a %d-column model fitted twice' % (p, detail, job[1], job[0]),
                          {'rerun': ['harness.props.C12._refit', list(job)]})
    notes = 0
    for case, probs in zip(cases, rex):
        ctx.case('exact|' + json.dumps([case['R'], case['cond']]))
        for p, detail in probs:
            if p.startswith('note:'):
                notes += 1
                continue
            ctx.violation('C12|exact|d=%d,|cond|=%d|%s|%s' % (len(case['R']), len(case['cond']), p, detail.split(' ')[0]),
                          '%s (%s) R=%s/%d conditioning on columns %s' % (p, detail[:300], case['R'], case['q'], case['cond']), case)
    ctx.extra['sampler_not_observed'] = notes
    for job, probs in zip(sjobs, rsc):
        ctx.case('schema|' + json.dumps(job))
        for p, detail in probs:
            ctx.violation('C12|schema|d=%d|%s|%s,%s' % (job[0], p, detail, 'outside' if job[3] < 0 else 'inside'),
                          '%s with %s conditions on columns %s of a %d-column model' % (p, detail, job[1], job[0]), list(job))
    recs = [r for rr in rlaw for r in rr]
    for i in A.evaluate(ctx, 'Acceptance.conditional-law', recs):
        r = recs[i]
        ctx.violation('C12|law|%s' % r['id'].split('|')[2].split('[')[0] + '|' + r['id'].split('|')[0],
                      'conditional law: %s observed %.4f expected %.4f (band %.4f)' % (r['id'], r['obs'] / 1e6, r['exp'] / 1e6, r['band'] / 1e6), r)
    for j in ljobs:
        ctx.case('law|' + json.dumps(j))
    ctx.traces += len(cases)
    ctx.sample({k: cases[len(cases) // 2][k] for k in ('R', 'q', 'cond', 'free', 'det', 'bnum', 'snum', 'sden')})
    ctx.exhaustive = not quick
