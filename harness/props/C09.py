"""C09  Bivariate copula samples have uniform margins and the model's dependence."""
import math
from multiprocessing import Pool

import numpy as np

from .. import accept as A
from .. import observe_bi as O

LEVEL = 'exploration'
ALPHA = 1e-11           # per comparison; < 100 comparisons per run -> < 1e-9 per run


def theta_for(fam, tau):
    if fam == 'Clayton':
        return 2 * tau / (1 - tau)
    if fam == 'Gumbel':
        return 1 / (1 - tau)
    from scipy.optimize import brentq
    from .C10 import frank_tau
    return brentq(lambda t: frank_tau(t) - tau, -60.0, 60.0)


def _sample(job):
    from scipy import stats
    fam, tau, seed, n = job
    theta = theta_for(fam, tau)
    m = O.make(fam, theta)
    m.tau = tau
    if seed % 2 and n > 0:
        # every second model is parameterised the library's way, tau -> theta (a mirror model with the opposite tau went first)
        try:
            import copulas.bivariate as cb
            if fam == 'Frank':
                mirror = cb.Frank()
                mirror.tau = -tau
                mirror.theta = mirror.compute_theta()
            th = float(m.compute_theta())
            if np.isfinite(th):
                m.theta = th
        except Exception:
            pass
    m.set_random_state(seed)
    rec = {'fam': fam, 'tau': tau, 'seed': seed, 'n': n, 'err': '', 'exact': [], 'stats': {}}
    try:
        if n < 0:
            # many small requests in a row on one seeded model: successive calls advance the stream, so the pooled rows are a sample too
            k = -n
            X = np.vstack([np.asarray(m.sample(k), dtype=float).reshape(k, 2) for _ in range(3000 // k)])
            n = len(X)
            rec['n'] = n
        else:
            X = np.asarray(m.sample(n), dtype=float)
    except Exception as ex:
        rec['err'] = type(ex).__name__
        return rec
    if X.shape != (n, 2):
        rec['exact'].append('shape-is-not-(n,2)')
        return rec
    if not np.isfinite(X).all():
        rec['exact'].append('non-finite-values')
        return rec
    if X.min() < 0 or X.max() > 1:
        rec['exact'].append('values-outside-unit-interval')
    if n < 100:
        return rec
    eps = math.sqrt(math.log(2.0 / ALPHA) / (2.0 * n))
    for j in range(2):
        x = np.sort(X[:, j])
        ks = max(np.max(np.arange(1, n + 1) / n - x), np.max(x - np.arange(0, n) / n))
        rec['stats']['ks%d' % j] = (float(ks), 0.0, eps)
    # Kendall tau on a subsample (O(n log n) in scipy); Hoeffding bound for the U-statistic
    t = float(stats.kendalltau(X[:, 0], X[:, 1])[0])
    tb = math.sqrt(2.0 * math.log(2.0 / ALPHA) / (n // 2))
    rec['stats']['tau'] = (t, tau, tb)
    # joint distribution: empirical joint CDF on an 11x11 grid (0, 0.1 .. 0.9, 1) vs cumulative_distribution
    g = np.concatenate([[0.0], np.linspace(0.1, 0.9, 9), [1.0]])       # the edges of the unit square belong to the batch
    P = O.mesh(g)
    H = np.array([np.mean((X[:, 0] <= a) & (X[:, 1] <= b)) for a, b in P])
    Cm = np.asarray(m.cumulative_distribution(P.copy()), dtype=float)
    rec['stats']['joint'] = (float(np.max(np.abs(H - Cm))), 0.0, eps)
    # the tails of the margins are pooled over the seeds in run(): counts below 0.02 and above 0.98 per column
    rec['tails'] = [[int(np.sum(X[:, j] < 0.02)), int(np.sum(X[:, j] > 0.98))] for j in range(2)]
    return rec


def run(ctx):
    quick = ctx.tier == 'quick'
    n = 12000 if quick else 20000
    ctx.rule = ('sample(n=%d; 16 n for Clayton) of parameterised Clayton, Frank and Gumbel copulas at taus across the admissible part of [-0.8, 0.8] x seeds: exact '
                'clauses (shape (n,2), finite, in [0,1]); TLC (Acceptance) evaluates the bands: Kolmogorov-Smirnov distance of each column to the '
                'uniform law (DKW) and the mass of each column below 0.02 / above 0.98 pooled over the seeds (Bernstein band), sample Kendall tau vs model tau (Hoeffding bound for U-statistics), sup distance between the empirical joint CDF '
                'on an 11x11 grid (0, 0.1 .. 0.9, 1) and cumulative_distribution (Hoeffding); per-comparison level 1e-11.  non-trivial = every sample; distinct by '
                '(family, tau, seed)') % n
    ctx.assumptions = ['bands are non-asymptotic with total false-alarm probability < 1e-9 per run; a distributional defect smaller than the band '
                       '(%.3f for CDFs, %.3f for tau) is not detected' % (math.sqrt(math.log(2 / ALPHA) / (2.0 * n)), math.sqrt(2 * math.log(2 / ALPHA) / (n // 2)))]
    taus = {'Clayton': (0.1, 0.35, 0.6, 0.8), 'Gumbel': (0.0, 0.05, 0.3, 0.55, 0.8), 'Frank': (-0.8, -0.4, 0.15, 0.5, 0.8)}     # Gumbel tau 0: theta = 1, the closed end
    seeds = (1, 2) if quick else (1, 2, 3, 4, 5)
    # Clayton samples through the closed-form inverse, so a much larger n is affordable: the generic sampling path
    # (uniform draws, column order, clipping) is then resolved to ~0.01
    jobs = [(fam, tau, ctx.seed * 100 + s, n * 16 if fam == 'Clayton' else n) for fam in O.FAMS for tau in taus[fam] for s in seeds]
    jobs += [(fam, taus[fam][1], ctx.seed * 100 + 50 + k, k) for fam in O.FAMS for k in (1, 2, 3)]      # tiny requests: exact clauses only
    jobs += [(fam, taus[fam][-1], ctx.seed * 100 + 70 + k, -k) for fam in O.FAMS for k in (1, 2)]      # 3000 / 1500 requests of one / two rows, pooled
    jobs.sort(key=lambda j: j[0] == 'Clayton')
    with Pool(16) as pool:
        recs = pool.map(_sample, jobs, chunksize=1)
    arecs, owner = [], []
    for r in recs:
        key = '%s|tau=%.2f' % (r['fam'], r['tau'])
        ctx.case('%s|%d' % (key, r['seed']))
        if r['err']:
            ctx.violation('C09|%s|sample-raised-%s|%s' % (r['fam'], r['err'], 'neg' if r['tau'] < 0 else 'pos'), 'sample raised %s (%s)' % (r['err'], key), r)
        for e in r['exact']:
            ctx.violation('C09|%s|%s|%s' % (r['fam'], e, 'neg' if r['tau'] < 0 else 'pos'), '%s (%s)' % (e, key), r)
        for name, (obs, exp, band) in r['stats'].items():
            arecs.append(A.band('%s|%s|seed=%d' % (key, name, r['seed']), obs, exp, band))
            owner.append((r, name))
    # tail cells of the margins, pooled over the seeds of a (family, tau) cell: Bernstein band at level ALPHA for a binomial count
    pooled = {}
    for r in recs:
        if 'tails' in r:
            c = pooled.setdefault((r['fam'], r['tau']), [[0, 0], [0, 0], 0])
            for j in range(2):
                for k in range(2):
                    c[j][k] += r['tails'][j][k]
            c[2] += r['n']
    L = math.log(2.0 / ALPHA)
    for (fam, tau), c in sorted(pooled.items()):
        N = c[2]
        var = N * 0.02 * 0.98
        d = L / 3.0 + math.sqrt(L * L / 9.0 + 2.0 * L * var)          # solves d^2 = 2 L (var + d / 3)
        for j in range(2):
            for k, side in enumerate(('lower', 'upper')):
                arecs.append(A.band('%s|tau=%.2f|column %d %s tail (2 %%) pooled over seeds' % (fam, tau, j, side), c[j][k] / N, 0.02, d / N))
                owner.append(({'fam': fam, 'tau': tau, 'seed': 0, 'stats': {'tail': (c[j][k] / N, 0.02, d / N)}, 'n': N}, 'tail'))
    for i in A.evaluate(ctx, 'Acceptance.samples', arecs):
        r, name = owner[i]
        what = {'ks0': 'first column not uniform', 'ks1': 'second column not uniform', 'tau': 'sample Kendall tau differs from the model tau',
                'joint': 'empirical joint CDF differs from cumulative_distribution',
                'tail': 'mass of a margin below 0.02 / above 0.98 differs from 0.02'}[name]
        ctx.violation('C09|%s|%s|%s' % (r['fam'], name.rstrip('01') if name.startswith('ks') else name, 'neg' if r['tau'] < 0 else 'pos'),
                      '%s: %s at tau=%.2f seed=%d: observed %.4f expected %.4f band %.4f' % (r['fam'], what, r['tau'], r['seed'], *r['stats'][name]), r)
    ctx.extra['max_stat_over_band'] = max([abs(o - e) / b for r in recs for (o, e, b) in r['stats'].values()] or [0])
    ctx.sample({k: recs[0][k] for k in ('fam', 'tau', 'seed', 'n', 'stats')})
    ctx.traces += len(recs)          # observation tables / samples of the real code judged by TLC
    ctx.exhaustive = False
