"""X04 (extra, no listed property of its own; the same plan runs inside C19)  Two model objects of different classes in one process
(spec/Coexist.tla): every answer equals the answer of the same model alone in a fresh process."""
from .. import coexist

LEVEL = 'model_checking'


def run(ctx):
    ctx.rule = ('extra coverage: TLC checks non-interference on spec/Coexist.tla (and refutes it on the design of a memo on the base class), emits every behaviour '
                'of 3 steps over two bivariate objects and simulated behaviours of 6 steps for the bivariate, univariate and multivariate class families; each '
                'is executed on real objects and every Query / Sample is compared with the same term of an object alone in a fresh process.  '
                'non-trivial = both objects fitted; distinct by content')
    ctx.assumptions = ['answers compared with rtol 1e-9; samples are drawn after set_random_state(7)']
    coexist.run_coexistence(ctx, 'X04')
    ctx.exhaustive = False
