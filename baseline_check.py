"""Run the repository's baseline test command (guard off) and compare with BASELINE.json's stable_pass list."""
import json, os, subprocess, sys, tempfile
import xml.etree.ElementTree as ET
b = json.load(open('/root/.vp/BASELINE.json'))
out = tempfile.mktemp(suffix='.xml', dir='/tmp')
env = {k: v for k, v in os.environ.items() if k != 'COPULAS_VERIF'}
subprocess.run(b['cmd'].replace('<file>', out), shell=True, env=env, stdout=subprocess.DEVNULL, stderr=subprocess.DEVNULL)
passed = set()
for tc in ET.parse(out).getroot().iter('testcase'):
    if not any(c.tag in ('failure', 'error', 'skipped') for c in tc):
        passed.add(tc.get('classname') + '::' + tc.get('name'))
os.remove(out)
missing = [t for t in b['stable_pass'] if t not in passed]
# the repository's suite contains unseeded statistical tests (e.g. tests/end-to-end/univariate/test_gamma.py::test_fit_sample)
# that fail now and then on any tree; a test that passes when re-run on its own is reported as flaky, not as missing
flaky = []
for t in list(missing):
    mod, _, rest = t.partition('::')
    parts = mod.split('.')
    # classname is dotted path + class; find the file
    for cut in range(len(parts), 0, -1):
        path = os.path.join('/repo', *parts[:cut]) + '.py'
        if os.path.exists(path):
            node = path + '::' + '::'.join(parts[cut:] + [rest])
            ok = False
            for _ in range(2):
                r = subprocess.run('cd /repo && /venv/bin/python -m pytest -q -p no:cacheprovider "%s"' % node, shell=True, env=env,
                                   stdout=subprocess.DEVNULL, stderr=subprocess.DEVNULL)
                if r.returncode == 0:
                    ok = True
                    break
            if ok:
                missing.remove(t)
                flaky.append(t)
            break
for t in flaky:
    print('  FLAKY (passes when re-run)', t)
print('baseline stable_pass: %d, passing now: %d, missing: %d' % (len(b['stable_pass']), len(passed), len(missing)))
for m in missing:
    print('  MISSING', m)
sys.exit(1 if missing else 0)
