-------------------------------- MODULE CondGauss --------------------------------
(***************************************************************************)
(* C12: conditioning a Gaussian copula, exactly.                              *)
(*                                                                            *)
(* A correlation matrix with entries k/Q (k integer) is partitioned by a      *)
(* non-empty proper subset of its columns (the conditioning set).  In normal  *)
(* score space the remaining columns have mean  S12 S22^-1 z  and covariance  *)
(* S11 - S12 S22^-1 S21 (the Schur complement).  Both are computed here in    *)
(* integers: with A = adj(S22) and D = det(S22) (scaled entries)              *)
(*        S12 S22^-1          = (S12 A) / D                                    *)
(*        Schur complement    = (S11 D - S12 A S21) / (Q D)                    *)
(* so the harness can compare the parameters the implementation hands to the  *)
(* sampler with exact rationals.  Only positive-definite matrices (Sylvester) *)
(* are cases.  The Schur complement of a positive-definite matrix is          *)
(* symmetric and has a positive diagonal - checked as invariants.             *)
(***************************************************************************)
EXTENDS Integers, Sequences, FiniteSets, TLC

CONSTANTS Dim,        \* number of columns
          Q,          \* common denominator of the correlation entries
          Mags        \* admissible magnitudes of the numerators of the off-diagonal entries (both signs are used)

Vals == Mags \cup {-v : v \in Mags}

Idx == 1..Dim
UpperPairs == {p \in Idx \X Idx : p[1] < p[2]}

\* determinant of the square matrix m (function of index sequences rows/cols given as sequences of indices into m)
Minor(rows, j) == [i \in 1..(Len(rows) - 1) |-> IF i < j THEN rows[i] ELSE rows[i + 1]]
RECURSIVE DetRC(_, _, _)
DetRC(m, rows, cols) ==
  IF Len(rows) = 0 THEN 1
  ELSE IF Len(rows) = 1 THEN m[rows[1]][cols[1]]
  ELSE LET RECURSIVE Sum(_)
           Sum(j) == IF j > Len(cols) THEN 0
                     ELSE (IF j % 2 = 1 THEN 1 ELSE -1) * m[rows[1]][cols[j]] * DetRC(m, Minor(rows, 1), Minor(cols, j)) + Sum(j + 1)
       IN Sum(1)
Det(m, ix) == DetRC(m, ix, ix)

SeqOf(S) == LET RECURSIVE Build(_, _)
                Build(T, acc) == IF T = {} THEN acc
                                 ELSE LET x == CHOOSE y \in T : \A z \in T : y <= z IN Build(T \ {x}, Append(acc, x))
            IN Build(S, <<>>)

PosDef(m) == \A k \in Idx : Det(m, [i \in 1..k |-> i]) > 0

\* adjugate of the sub-matrix on index sequence c: adj[a][b] = (-1)^(a+b) * det(minor without row b, column a)
Adj(m, c, a, b) == (IF (a + b) % 2 = 0 THEN 1 ELSE -1) * DetRC(m, Minor(c, b), Minor(c, a))

VARIABLES R, cond, done
vars == <<R, cond, done>>

Init ==
  /\ \E up \in [UpperPairs -> Vals] :
       R = [i \in Idx |-> [j \in Idx |-> IF i = j THEN Q ELSE IF i < j THEN up[<<i, j>>] ELSE up[<<j, i>>]]]
  /\ PosDef(R)
  /\ cond \in (SUBSET Idx) \ {{}, Idx}
  /\ done = FALSE
Next == ~done /\ done' = TRUE /\ UNCHANGED <<R, cond>>
Spec == Init /\ [][Next]_vars

C == SeqOf(cond)
F == SeqOf(Idx \ cond)
D == Det(R, C)
\* numerator matrices (rows: free columns, in order)
BNum == [i \in 1..Len(F) |-> [j \in 1..Len(C) |->
           LET RECURSIVE S(_) S(l) == IF l > Len(C) THEN 0 ELSE R[F[i]][C[l]] * Adj(R, C, l, j) + S(l + 1) IN S(1)]]
\* note: with scaled entries adj carries Q^(k-1) and D carries Q^k: B = BNum / D exactly
SchurNum == [i \in 1..Len(F) |-> [i2 \in 1..Len(F) |->
           R[F[i]][F[i2]] * D -
           (LET RECURSIVE S(_) S(j) == IF j > Len(C) THEN 0 ELSE BNum[i][j] * R[C[j]][F[i2]] + S(j + 1) IN S(1))]]
SchurDen == Q * D

DetPositive == D > 0
SchurSymmetric == \A i, j \in 1..Len(F) : SchurNum[i][j] = SchurNum[j][i]
SchurDiagonalPositive == \A i \in 1..Len(F) : SchurNum[i][i] > 0
SchurVarianceShrinks == \A i \in 1..Len(F) : SchurNum[i][i] <= SchurDen        \* conditioning never increases a variance

Emit == ~done => PrintT(<<"CASE", [R |-> R, q |-> Q, cond |-> C, free |-> F, det |-> D, bnum |-> BNum, snum |-> SchurNum, sden |-> SchurDen]>>)
=============================================================================
