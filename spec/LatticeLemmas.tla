------------------------------ MODULE LatticeLemmas ------------------------------
(***************************************************************************)
(* The reductions the law modules rely on, model-checked instead of assumed:  *)
(* TLC enumerates EVERY table on an N x N lattice with integer entries 0..M    *)
(* that is grounded, has uniform margins (C(i,N) = C(N,i) = i-th margin) and   *)
(* is 2-increasing on adjacent cells, and checks that then                     *)
(*   - every rectangle (not only adjacent cells) has non-negative volume,      *)
(*   - the Frechet-Hoeffding bounds hold,                                      *)
(*   - the table is non-decreasing in each argument and 1-Lipschitz.           *)
(* This licenses checking O(N^2) local laws on observed tables.                *)
(***************************************************************************)
EXTENDS Integers, Sequences, FiniteSets, TLC
CONSTANTS N, M            \* lattice 1..N (index 1 = 0, index N = 1), mass unit 1/M, margins G[i] = (i-1) * M / (N-1)
G(i) == ((i - 1) * M) \div (N - 1)
VARIABLE C
Idx == 1..N
LocalLaws(T) ==
  /\ \A i \in Idx : T[i][1] = 0 /\ T[1][i] = 0
  /\ \A i \in Idx : T[i][N] = G(i) /\ T[N][i] = G(i)
  /\ \A i \in 1..(N - 1) : \A j \in 1..(N - 1) : T[i + 1][j + 1] - T[i + 1][j] - T[i][j + 1] + T[i][j] >= 0
Inner == 2..(N - 1)
\* boundary rows and columns are fixed by groundedness and the margins; only the interior is free
Init == /\ \E f \in [Inner \X Inner -> 0..M] :
             C = [i \in Idx |-> [j \in Idx |-> IF i = 1 \/ j = 1 THEN 0 ELSE IF j = N THEN G(i) ELSE IF i = N THEN G(j) ELSE f[<<i, j>>]]]
        /\ LocalLaws(C)
Next == UNCHANGED C
Spec == Init /\ [][Next]_C
MinI(a, b) == IF a < b THEN a ELSE b
MaxI(a, b) == IF a > b THEN a ELSE b
EveryRectangle == \A i1, i2, j1, j2 \in Idx : (i1 <= i2 /\ j1 <= j2) => C[i2][j2] - C[i2][j1] - C[i1][j2] + C[i1][j1] >= 0
FrechetBounds == \A i, j \in Idx : C[i][j] <= MinI(G(i), G(j)) /\ C[i][j] >= MaxI(G(i) + G(j) - M, 0)
Monotone == \A i, j \in Idx : (i < N => C[i + 1][j] >= C[i][j]) /\ (j < N => C[i][j + 1] >= C[i][j])
Lipschitz == \A i, j \in Idx : i < N => C[i + 1][j] - C[i][j] <= G(i + 1) - G(i)
=============================================================================
