------------------------------- MODULE BisectInd -------------------------------
(***************************************************************************)
(* The loop of copulas.optimize.bisect (module Bisect) restated for         *)
(* Apalache: positions are arbitrary integers (no grid bound, no bound on    *)
(* the number of iterations), two lanes.  The C18 safety clauses - the       *)
(* bracket stays ordered, nested in the caller's bracket and keeps a zero    *)
(* of the lane's function between its ends - are shown INDUCTIVE:            *)
(*                                                                           *)
(*   apalache-mc check --init=Init    --inv=IndInv --length=0 BisectInd.tla   *)
(*   apalache-mc check --init=IndInit --inv=IndInv --length=1 BisectInd.tla   *)
(*   apalache-mc check --init=IndInit --inv=Safe   --length=0 BisectInd.tla   *)
(*   apalache-mc check --init=IndInit --next=NextWrong --inv=IndInv --length=1 BisectInd.tla    (must fail) *)
(*   apalache-mc check --init=IndInit --inv=Halves --length=1 BisectInd.tla                                  *)
(*                                                                           *)
(* Halves is the progress fact that makes the loop terminate: one pass       *)
(* leaves every lane at most half as wide (rounded up); HalvesTooStrong is   *)
(* its non-vacuity twin (must fail).  A lane's function is monotone, given   *)
(* by its zero set z1 <= 2x <= z2 (half units) as in Bisect.  NextWrong is a *)
(* wrong vectorisation (the mask of lane 1 applied to both lanes).           *)
(***************************************************************************)
EXTENDS Integers, Apalache

Lanes == {1, 2}

VARIABLES
  \* @type: Int -> Int;
  lo,
  \* @type: Int -> Int;
  hi,
  \* @type: Int -> Int;
  lo0,
  \* @type: Int -> Int;
  hi0,
  \* @type: Int -> Int;
  z1,
  \* @type: Int -> Int;
  z2

\* @type: (Int, Int) => Int;
Sgn(l, x) == IF 2 * x < z1[l] THEN -1 ELSE IF 2 * x > z2[l] THEN 1 ELSE 0
\* @type: (Int) => Int;
Mid(l) == (lo[l] + hi[l]) \div 2

Valid == \A l \in Lanes : z1[l] <= z2[l] /\ lo[l] <= hi[l] /\ Sgn(l, lo[l]) <= 0 /\ Sgn(l, hi[l]) >= 0

\* the state after the two assertions at the top of bisect passed
Init ==
  /\ lo = Gen(2) /\ hi = Gen(2) /\ z1 = Gen(2) /\ z2 = Gen(2)
  /\ DOMAIN lo = Lanes /\ DOMAIN hi = Lanes /\ DOMAIN z1 = Lanes /\ DOMAIN z2 = Lanes
  /\ lo0 = lo /\ hi0 = hi
  /\ Valid

Iterate ==
  /\ lo' = [l \in Lanes |-> IF Sgn(l, Mid(l)) <= 0 THEN Mid(l) ELSE lo[l]]
  /\ hi' = [l \in Lanes |-> IF Sgn(l, Mid(l)) >= 0 THEN Mid(l) ELSE hi[l]]
  /\ UNCHANGED <<lo0, hi0, z1, z2>>
Next == Iterate

\* a wrong vectorisation: the mask of lane 1 is applied to both lanes
NextWrong ==
  /\ lo' = [l \in Lanes |-> IF Sgn(1, Mid(1)) <= 0 THEN Mid(l) ELSE lo[l]]
  /\ hi' = [l \in Lanes |-> IF Sgn(1, Mid(1)) >= 0 THEN Mid(l) ELSE hi[l]]
  /\ UNCHANGED <<lo0, hi0, z1, z2>>

Ordered == \A l \in Lanes : lo[l] <= hi[l]
Nested == \A l \in Lanes : lo0[l] <= lo[l] /\ hi[l] <= hi0[l]
RootBracketed == \A l \in Lanes : Sgn(l, lo[l]) <= 0 /\ Sgn(l, hi[l]) >= 0
Safe == Ordered /\ Nested /\ RootBracketed

TypeOK == /\ DOMAIN lo = Lanes /\ DOMAIN hi = Lanes /\ DOMAIN lo0 = Lanes /\ DOMAIN hi0 = Lanes
          /\ DOMAIN z1 = Lanes /\ DOMAIN z2 = Lanes
          /\ \A l \in Lanes : z1[l] <= z2[l]
IndInv == TypeOK /\ Safe
IndInit ==
  /\ lo = Gen(2) /\ hi = Gen(2) /\ lo0 = Gen(2) /\ hi0 = Gen(2) /\ z1 = Gen(2) /\ z2 = Gen(2)
  /\ IndInv

\* progress: one pass leaves every lane at most half as wide (rounded up)
\* @type: Bool;
Halves == \A l \in Lanes : 2 * (hi'[l] - lo'[l]) <= (hi[l] - lo[l]) + 1
\* @type: Bool;
HalvesTooStrong == \A l \in Lanes : 2 * (hi'[l] - lo'[l]) <= (hi[l] - lo[l])
=============================================================================
