-------------------------------- MODULE CopulaLaws --------------------------------
(***************************************************************************)
(* C06: Clayton, Frank and Gumbel CDFs are genuine Archimedean copulas.       *)
(*                                                                            *)
(* The state is one observation of the implementation: for one family and one *)
(* theta of a chain of increasing thetas, the CDF table on a grid of the unit *)
(* square that contains 0, 1 and points within 1e-12 of them, the generator   *)
(* table, and batch-composition pairs.  Next moves to the next observation;   *)
(* laws of one table are invariants of the state, the ordering in theta is an *)
(* action property between consecutive observations of the same family.       *)
(* Every violated law is collected (total verdict), not just the first.       *)
(*                                                                            *)
(* observation: [fam, theta (text), chain (position in the family's chain),   *)
(*   S, G (grid, scaled by S), C (table, scaled by S),                         *)
(*   gs (scale of generator values), g (phi at the grid points, NAN = too     *)
(*   large / not finite), gc (phi(C[i][j])), g1 (phi(1)),                      *)
(*   rowwise: <<[a, b]>> (batch value vs row-by-row value of the same point)] *)
(***************************************************************************)
EXTENDS Laws, Json, IOUtils, TLCExt

Obs == JsonDeserialize(IOEnv.TRACE_FILE)
VARIABLE k
Init == k = 1
Next == k < Len(Obs) /\ k' = k + 1
Spec == Init /\ [][Next]_k

N(o) == Len(o.G)
\* the generator laws are relative statements; they are evaluated where the CDF itself is resolved to better than 1e-8
\* relative (grid values in [1e-4, 1 - 1e-4]); closer to the boundary the 1e-16 absolute noise of C dominates phi(C)
Interior(o) == {i \in 1..N(o) : o.g[i] # NAN /\ o.G[i] >= o.S \div 10000 /\ (o.S - o.G[i]) >= o.S \div 10000}
GeneratorIdentity(o) ==
  \A i, j \in Interior(o) : (o.gc[i][j] # NAN /\ o.C[i][j] >= o.S \div 10000) =>
     Close(o.gc[i][j], o.g[i] + o.g[j], 3, 20)         \* phi(C(u,v)) = phi(u) + phi(v), 2e-5 relative + rounding
GeneratorDecreasing(o) == \A i, j \in Interior(o) : i < j => o.g[j] <= o.g[i] + 1
GeneratorAtOne(o) == Abs(o.g1) <= 1
\* towards 0 the generator grows without bound: on the grid points within 1e-4 of 0 (1e-12, 1e-9, 1e-6, 1e-4; the point 0 itself is
\* excluded) it is strictly decreasing wherever its values are representable (these points are orders of magnitude apart)
GeneratorStrictTowardsZero(o) ==
  \A i, j \in 2..N(o) : (i < j /\ o.G[j] <= o.S \div 10000 /\ o.g[i] # NAN /\ o.g[j] # NAN) => o.g[i] > o.g[j]
RowsIndependent(o) == \A i \in DOMAIN o.rowwise : o.rowwise[i].a = o.rowwise[i].b

TableProblems(o) ==
  IF ~Finite2(o.C) THEN <<"cdf-not-finite">> ELSE
  (IF ~InRange2(o.C, -1, o.S + 1) THEN <<"cdf-outside-unit-interval">> ELSE <<>>) \o
  (IF ~Grounded(o.C, 1) THEN <<"not-grounded">> ELSE <<>>) \o
  (IF ~Margins(o.C, o.G, 1) THEN <<"margins-not-uniform">> ELSE <<>>) \o
  (IF ~TwoIncreasing(o.C, 3) THEN <<"negative-C-volume">> ELSE <<>>) \o
  (IF ~Frechet(o.C, o.G, o.S, 1) THEN <<"outside-frechet-bounds">> ELSE <<>>) \o
  (IF ~Symmetric(o.C, 1, 0) THEN <<"not-symmetric">> ELSE <<>>) \o
  (IF ~GeneratorIdentity(o) THEN <<"generator-identity">> ELSE <<>>) \o
  (IF ~GeneratorDecreasing(o) THEN <<"generator-not-decreasing">> ELSE <<>>) \o
  (IF ~GeneratorAtOne(o) THEN <<"generator-at-one-not-zero">> ELSE <<>>) \o
  (IF ~GeneratorStrictTowardsZero(o) THEN <<"generator-not-strictly-decreasing-towards-zero">> ELSE <<>>) \o
  (IF ~RowsIndependent(o) THEN <<"rows-of-a-batch-not-independent">> ELSE <<>>)

\* the lower-left corner, magnified: grid points 0 .. 1e-6 and CDF values scaled by ZS = 1e14 (resolution 1e-14), so that
\* behaviour within 1e-12 of the boundary is resolved: 0 <= C <= min(u, v), monotone, 2-increasing, symmetric, grounded
CornerProblems(o) ==
  IF ~Finite2(o.ZC) THEN <<"corner:cdf-not-finite">> ELSE
  (IF ~Grounded(o.ZC, 1) THEN <<"corner:not-grounded">> ELSE <<>>) \o
  (IF \E i, j \in DOMAIN o.ZG : o.ZC[i][j] < -1 \/ o.ZC[i][j] > MinI(o.ZG[i], o.ZG[j]) + 1 THEN <<"corner:outside-frechet-bounds">> ELSE <<>>) \o
  (IF ~TwoIncreasing(o.ZC, 3) THEN <<"corner:negative-C-volume">> ELSE <<>>) \o
  (IF ~Symmetric(o.ZC, 1, 0) THEN <<"corner:not-symmetric">> ELSE <<>>)

\* larger theta gives a pointwise larger C (same family, consecutive members of the chain)
OrderProblems(i) ==
  IF i > 1 /\ Obs[i].fam = Obs[i - 1].fam /\ Finite2(Obs[i].C) /\ Finite2(Obs[i - 1].C) /\ ~PointwiseLeq(Obs[i - 1].C, Obs[i].C, 2)
  THEN <<"not-ordered-in-theta">> ELSE <<>>
ThetaOrder == [][OrderProblems(k') = <<>>]_k          \* the action-property form (checked by TLC on the chain)

TraceChecked == k = 1 => PrintT(<<"VERDICT", SelectSeq([i \in 1..Len(Obs) |-> <<i, TableProblems(Obs[i]) \o CornerProblems(Obs[i]) \o OrderProblems(i)>>], LAMBDA p : p[2] # <<>>)>>)
=============================================================================
