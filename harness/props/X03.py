"""X03 (extra, no listed property)  The constructor dispatch of copulas.bivariate.Bivariate as a state machine (spec/BivDispatch.tla).

TLC checks the design: on the model of the code (Intended = FALSE) the properties that hold in every history (DispatchSound,
ExportedAlwaysDispatch, InvalidRefused, CacheFrozen, CacheSubset); on the history-free design (Intended = TRUE) also RegisteredDispatch and
EntryIndependent, which TLC must refute on the model of the code (the refutation is the named deviation: the result of a dispatch depends on
what was imported and called before).  The behaviours TLC emits from the model of the code are executed on the real classes, one forked
process per behaviour (import state and class attributes are process-wide), and the result of every step is compared.
"""
import json
import multiprocessing
import os

from .. import tlc as T

LEVEL = 'model_checking'
CFG = ('SPECIFICATION Spec\nCONSTANTS\n  MaxLen = %d\n  Intended = %s\n  Entries = {%s}\n  ReqKinds = {%s}\n  ReqFams = {%s}\n%s\nCHECK_DEADLOCK FALSE\n')
ALWAYS = 'INVARIANT DispatchSound\nINVARIANT ExportedAlwaysDispatch\nINVARIANT InvalidRefused\nINVARIANT CacheSubset\nPROPERTY CacheFrozen'
HISTORY_FREE = 'INVARIANT RegisteredDispatch\nINVARIANT EntryIndependent'
KINDS = ('enum', 'upper', 'lower', 'mixed', 'fromdict', 'positional', 'bogus', 'number')
FAMS = ('CLAYTON', 'FRANK', 'GUMBEL', 'INDEPENDENCE')


def q(xs):
    return ', '.join('"%s"' % x for x in xs)


def _spell(kind, fam):
    from copulas.bivariate import CopulaTypes
    if kind == 'enum':
        return CopulaTypes[fam]
    if kind in ('upper', 'fromdict'):
        return fam
    if kind in ('lower', 'positional'):
        return fam.lower()
    if kind == 'mixed':
        return fam[0] + fam[1:].lower()
    if kind == 'bogus':
        return 'no-such-family'
    return 3


def _execute(beh):
    """runs in a freshly forked child of a parent that imported copulas.bivariate and nothing else of the package"""
    import copulas.bivariate as cb
    outs = []
    for ev in beh:
        if ev['e'] == 'Import':
            import copulas.bivariate.independence  # noqa
            outs.append('imported')
            continue
        E = cb.Bivariate if ev['en'] == 'Bivariate' else getattr(cb, ev['en'].capitalize())
        arg = _spell(ev['kind'], ev['fam'])
        try:
            if ev['kind'] == 'fromdict':
                m = E.from_dict({'copula_type': arg, 'theta': 2.5, 'tau': 0.5})
            elif ev['kind'] == 'positional':
                m = E(arg)
            else:
                m = E(copula_type=arg)
            if m is None:
                outs.append('None')
            elif ev['kind'] == 'positional' and type(m) is E:
                outs.append('base:' + ev['en'])
            else:
                outs.append(type(m).__name__.upper())
        except Exception as ex:
            outs.append(type(ex).__name__)
    return outs


def _forked(beh):
    """execute one behaviour in a forked child of this (clean) worker process"""
    r, w = os.pipe()
    pid = os.fork()
    if pid == 0:
        try:
            os.close(r)
            try:
                out = _execute(beh)
            except BaseException as ex:     # noqa
                out = ['harness:' + type(ex).__name__]
            os.write(w, json.dumps(out).encode())
        finally:
            os._exit(0)
    os.close(w)
    buf = b''
    while True:
        chunk = os.read(r, 65536)
        if not chunk:
            break
        buf += chunk
    os.close(r)
    os.waitpid(pid, 0)
    return json.loads(buf.decode()) if buf else ['harness:no-output']


def run(ctx):
    quick = ctx.tier == 'quick'
    import sys
    assert 'copulas.bivariate.independence' not in sys.modules, 'the driver must start from a process that has not imported the fourth family'
    import copulas.bivariate  # noqa  (the children are forked from this state)
    ctx.rule = ('extra coverage, not a listed property: TLC checks spec/BivDispatch.tla (code model: the always-properties hold, the history-free '
                'properties are refuted; history-free design: all hold) and emits every behaviour of %d steps over ImportIndependence and the '
                'dispatch requests entry class x spelling x family (plus simulated behaviours of %d steps over the full alphabet); each is executed '
                'on the real classes in a freshly forked process and the result of every step (instance of which class / None / exception) is '
                'compared with the specification.  non-trivial = a behaviour with a keyword dispatch; distinct by content') % (3, 6)
    ctx.assumptions = ['one forked process per behaviour: import state and the class attribute _subclasses are process-wide',
                       'the parent process has imported copulas.bivariate and not copulas.bivariate.independence']
    small = (('Bivariate', 'CLAYTON'), ('enum', 'fromdict', 'bogus', 'positional'), ('FRANK', 'INDEPENDENCE'))
    full = (('Bivariate', 'CLAYTON', 'FRANK', 'GUMBEL'), KINDS, FAMS)
    # design checks
    for name, intended, props, must in (('code model: what holds in every history', 'FALSE', ALWAYS, True),
                                        ('history-free design', 'TRUE', ALWAYS + '\n' + HISTORY_FREE, True),
                                        ('code model refutes the history-free properties', 'FALSE', HISTORY_FREE, False)):
        r = ctx.tlc('BivDispatch: ' + name, 'BivDispatch', CFG % (4 if quick else 5, intended, q(small[0]), q(small[1]), q(small[2]), props),
                    must_hold=must, timeout=900)
        if not must and r.ok:
            raise T.TlcError('BivDispatch: the code model does not refute the history-free properties (vacuous model?)')
        if not must:
            ctx.extra['refuted_on_the_code_model'] = r.violated
    # behaviours: exhaustive over the small alphabet, simulated over the full one
    r = ctx.tlc('BivDispatch.gen', 'BivDispatch', CFG % (3, 'FALSE', q(small[0]), q(small[1]), q(small[2]), 'INVARIANT Emit'), workers=1, timeout=900)
    behs = {}
    for b in r.tagged('BEH'):
        behs[json.dumps(b[0], sort_keys=True)] = b[0]
    r = T.run('BivDispatch', CFG % (6, 'FALSE', q(full[0]), q(full[1]), q(full[2]), 'INVARIANT Emit'), workers=1,
              simulate='num=%d' % (400 if quick else 4000), depth=8, seed=ctx.seed + 3, timeout=600)
    ctx.note_tlc('BivDispatch.simulate', r)
    sim = [b[0] for b in r.tagged('BEH')]
    for b in sim[:(700 if quick else 20000)]:
        behs[json.dumps(b, sort_keys=True)] = b
    blist = [behs[k] for k in sorted(behs)]
    mp = multiprocessing.get_context('fork')
    with mp.Pool(16) as pool:
        outs = pool.map(_forked, blist, chunksize=8)
    mism = 0
    for beh, out in zip(blist, outs):
        ctx.case(json.dumps(beh, sort_keys=True), nontrivial=any(e['e'] == 'Dispatch' and e['kind'] in ('enum', 'upper', 'lower', 'mixed', 'fromdict') for e in beh))
        for i, (ev, o) in enumerate(zip(beh, out)):
            if ev['out'] != o:
                mism += 1
                before = 'after-import' if any(e['e'] == 'Import' for e in beh[:i]) else 'before-import'
                ctx.violation('X03|%s|%s|%s|expected-%s-got-%s|%s' % (ev['en'], ev['kind'], 'INDEPENDENCE' if ev['fam'] == 'INDEPENDENCE' else 'exported', ev['out'], o, before),
                              'step %d of %s: the specification says %s, the code answered %s' % (i + 1, json.dumps(beh), ev['out'], o),
                              {'behaviour': beh, 'observed': out})
                break
    ctx.extra['behaviours'] = len(blist)
    ctx.extra['behaviours_with_import'] = sum(1 for b in blist if any(e['e'] == 'Import' for e in b))
    ctx.extra['steps_answering_None_or_AttributeError'] = sum(1 for b in blist for e in b if e['out'] in ('None', 'AttributeError'))
    ctx.sample(blist[len(blist) // 2])
    ctx.traces += len(blist)
    ctx.exhaustive = False
