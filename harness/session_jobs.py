"""Shared driver for the Session-based properties (C14, C15, C19): generate behaviours with TLC,
replay them on real objects per class binding, validate the logs with TLC, collect verdicts."""
import hashlib
import importlib
import json
from multiprocessing import Pool

from . import bindings as B
from . import replay_session as R


def gen_cfg(b, maxlen, alphabet, init='InitSetup', nobj=2, cfgs=('c1',), data=('A',), seeds=(1,), sizes=(2,),
            arts=(), methods=None):
    return ('INIT %s\nNEXT Next\n' % init +
            R.session_constants(b, nobj, alphabet, maxlen, data=list(data), seeds=seeds, sizes=sizes,
                                cfgs=list(cfgs), arts=arts, methods=methods) + 'INVARIANT Emit\nCHECK_DEADLOCK FALSE\n')


def _gen(args):
    cfg, kw, seed = args
    behs, r = R.gen_behaviours(cfg, seed=seed if kw else None, **kw)
    seen = {}
    for h in behs:
        seen.setdefault(json.dumps(h, sort_keys=True), h)
    return list(seen.values()), r.distinct, r.generated


def _work(args):
    name, variant, items, relmod, nontrivial_events = args
    rel = importlib.import_module(relmod).relevant
    b = B.by_name(name)
    for k, v in variant.items():
        if k != 'seedform':
            setattr(b, k, v)
    seedform = variant.get('seedform', 'int')
    vtag = ','.join('%s=%s' % kv for kv in sorted(variant.items()))
    out = {'name': name, 'variant': vtag, 'viol': [], 'behaviours': 0, 'calls': 0, 'lines': 0,
           'sample': None, 'cases': []}
    by_nobj = {}
    for behs, nobj in items:
        by_nobj.setdefault(nobj, []).extend(behs)
    for nobj, behs in sorted(by_nobj.items()):
        rp = R.Replayer(b, seedform, nobj)
        # reference behaviours first: a fresh object fitted once defines what <<cfg, data>> means, so a
        # history-dependent deviant is attributed to its own history, not to the fresh fit
        if behs and behs[0][0]['e'] != 'Setup':
            refs = [[{'e': 'New', 'o': 1, 'c': c, 's': 0}, {'e': 'Fit', 'o': 1, 'd': d}]
                    for c in b.cfgs if c not in b.draw_cfgs for d in b.valid]
            behs = refs + list(behs)
        try:
            for i, h in enumerate(behs):
                rp.run_behaviour(i, h)
            verdict, tr = rp.validate({})
            out['behaviours'] += len(behs)
            out['cases'].extend(
                hashlib.sha1(('%s|%s|%s' % (name, vtag, json.dumps(h, sort_keys=True))).encode()).hexdigest()[:16]
                for h in behs if any(e['e'] in nontrivial_events for e in h))
            out['calls'] += rp.calls
            out['lines'] += len(rp.log)
            if out['sample'] is None and behs:
                out['sample'] = {'binding': name, 'variant': vtag, 'behaviour': behs[len(behs) // 2]}
            # Per behaviour the first call with a clause relevant to this property is reported.  Calls after
            # it may only echo it.  A call that deviates in a way that is not this property's business but can
            # derail the specification state this property's clauses depend on (ECHO_SOURCES of the property
            # module, e.g. a life-cycle mismatch for the RNG clauses) ends the examination of that behaviour.
            echo = getattr(importlib.import_module(relmod), 'ECHO_SOURCES', ())
            closed = {}
            bylines = {}
            for line, clause in verdict:
                bylines.setdefault(line, []).append(clause)
            for line in sorted(bylines):
                bi, ei, shape = rp.where[line - 1]
                if closed.get(bi):
                    continue
                relc = [c for c in bylines[line] if rel(c, shape)]
                if not relc:
                    if any(c in echo for c in bylines[line]):
                        closed[bi] = True
                    continue
                closed[bi] = True
                for clause in relc:
                    out['viol'].append({'clause': clause, 'shape': shape, 'behaviour': behs[bi], 'event_index': ei,
                                        'logged': rp.log[line - 1], 'variant': vtag, 'binding': name})
        finally:
            rp.close()
    return out


def run_session_jobs(ctx, pid, want, relmod, nontrivial_events, extra_jobs=(), extra_fn=None, weight=None):
    """want: list of (binding name, variant dict, [(cfg text, tlc kwargs, nobj)]).
    Generates each distinct configuration once, replays, validates, records violations."""
    gens = {}
    for name, variant, plans in want:
        for cfg, kw, nobj in plans:
            gens.setdefault((cfg, json.dumps(kw, sort_keys=True)), (cfg, kw, ctx.seed + 11))
    gkeys = list(gens)
    with Pool(min(16, max(1, len(gens)))) as pool:
        gout = pool.map(_gen, [gens[k] for k in gkeys], chunksize=1)
    gmap = dict(zip(gkeys, gout))
    for behs, distinct, generated in gout:
        ctx.states += distinct
        ctx.transitions += generated
    jobs = []
    for name, variant, plans in want:
        items = [(gmap[(cfg, json.dumps(kw, sort_keys=True))][0], nobj) for cfg, kw, nobj in plans]
        jobs.append((name, variant, items, relmod, tuple(nontrivial_events)))
    w = weight or (lambda j: sum(len(x[0]) for x in j[2]) * (8 if 'Vine' in j[0] else 1))
    jobs.sort(key=lambda j: -w(j))
    alljobs = [('work', j) for j in jobs] + [('extra', j) for j in extra_jobs]
    with Pool(min(16, max(1, len(alljobs)))) as pool:
        results = pool.map(_dispatch, [(k, j, extra_fn) for k, j in alljobs], chunksize=1)
    for res in results:
        ctx.traces += res['behaviours']
        ctx.evaluations += res['behaviours']
        ctx.extra['real_calls'] = ctx.extra.get('real_calls', 0) + res['calls']
        ctx.extra['trace_lines_validated'] = ctx.extra.get('trace_lines_validated', 0) + res['lines']
        ctx.states += res.get('states', 0)
        ctx.transitions += res.get('generated', 0)
        for k in res.get('cases', []):
            ctx.cases.add(k)
        if res['sample']:
            ctx.sample(res['sample'])
        for v in res['viol']:
            sig = '%s|%s|%s|%s' % (pid, v['binding'], v['clause'], v['shape'])
            ctx.violation(sig, '%s on %s during %s' % (v['clause'], v['binding'], v['shape']), v)
    return results


def _dispatch(a):
    kind, job, extra_fn = a
    if kind == 'extra':
        mod, fn = extra_fn
        return getattr(importlib.import_module(mod), fn)(job)
    return _work(job)


def replay(body):
    """./check Cnn --replay FILE for the Session-based properties: re-execute the recorded behaviour on real objects of the
    recorded binding, print the projected state after every call, validate the log with TLC and print the verdict."""
    case = body.get('case') or {}
    if 'behaviour' not in case or 'binding' not in case:
        print(json.dumps(body, indent=1)[:4000])
        return 0
    b = B.by_name(case['binding'])
    variant = dict(kv.split('=', 1) for kv in case.get('variant', '').split(',') if '=' in kv)
    seedform = variant.pop('seedform', case.get('seedform', 'int'))
    for k, v in variant.items():
        if k == 'poison_cycle':
            v = (0.0, 0.625, float('nan'))
        setattr(b, k, v)
    beh = case['behaviour']
    nobj = max([e.get('o', 0) for e in beh] + [e.get('o2', 0) for e in beh] + [len(e.get('su', [])) for e in beh] + [1])
    rp = R.Replayer(b, seedform, nobj)
    try:
        refs = []
        if beh and beh[0]['e'] != 'Setup':
            refs = [[{'e': 'New', 'o': 1, 'c': c, 's': 0}, {'e': 'Fit', 'o': 1, 'd': d}] for c in b.cfgs if c not in b.draw_cfgs for d in b.valid]
        for i, h in enumerate(refs + [beh]):
            rp.run_behaviour(i, h)
        verdict, tr = rp.validate({})
        print('binding %s, %d reference behaviours, behaviour under replay:' % (b.name, len(refs)))
        for line, rec in enumerate(rp.log, 1):
            if rp.where[line - 1][0] != len(refs):
                continue
            fails = [c for l, c in verdict if l == line]
            print('  %-34s life=%s g=%s rng=%s par=%s out=%s err=%r %s' % (rp.where[line - 1][2], rec['life'], rec['g'], rec['rng'], rec['par'],
                                                                     rec['out'], rec['err'], ('<-- ' + ', '.join(fails)) if fails else ''))
        bad = [c for l, c in verdict if rp.where[l - 1][0] == len(refs)]
        print('verdict: %s' % (bad or 'accepted'))
        return 1 if bad else 0
    finally:
        rp.close()


def require_coverage(r, alphabet, allow_zero=()):
    """vacuity guard for the design checks: every action named in the alphabet was taken at least once (TLC -coverage 1)"""
    from .core import MachineryError
    variants = {'Fit': ['Fit'], 'Query': ['Query', 'QueryUnfitted'], 'Sample': ['Sample', 'SampleUnfitted'],
                'ToDict': ['ToDict', 'ToDictUnfitted']}
    missing = []
    for a in alphabet:
        for act in variants.get(a, [a]):
            if act in allow_zero:
                continue
            if r.coverage.get(act, (0, 0))[1] == 0:
                missing.append(act)
    if missing:
        raise MachineryError('design check is vacuous: action(s) never taken: %s' % ', '.join(missing))
    return {a: r.coverage[a][1] for a in r.coverage if r.coverage[a][1]}
