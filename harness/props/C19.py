"""C19  Model lifecycle: fit is a pure function of its inputs; misuse fails loudly."""
import os

from .. import bindings as B
from .. import session_jobs as SJ
from .. import tlc as T

LEVEL = 'model_checking'
CFG = os.path.join(T.SPEC, 'cfg')

CLAUSES = {'model-behaviour-differs', 'equal-models-behave-differently', 'lifecycle-state-differs',
           'wrong-exception-class', 'expected-error-but-call-returned'}
EVENT_CLAUSES = {
    'unexpected-exception': ('Fit', 'Query', 'GetInstance', 'New'),
    'result-differs': ('Query',),
}

ECHO_SOURCES = ('global-generator-differs',)


def relevant(clause, shape):
    if shape.startswith(('GlobalSeed', 'GlobalDraw', 'SetSeed', 'Dataset')):
        return False
    if clause in CLAUSES:
        return True
    return any(shape.startswith(p) for p in EVENT_CLAUSES.get(clause, ()))


def plans(b, quick):
    data = list(b.valid) + list(b.invalid)
    out = []
    # (a) fit histories on one object: New, Fit, Fit[, Fit | Query | Sample]
    out.append((SJ.gen_cfg(b, 3 if quick else 4, ["New", "Fit", "FitRejected", "Query", "Sample"], init='Init', nobj=1,
                           cfgs=b.cfgs, data=data, seeds=(), sizes=(2,)), {}, 1))
    # (b) prototypes: get_instance of a fitted / unfitted instance, then fit the clone
    out.append((SJ.gen_cfg(b, 4, ["New", "Fit", "GetInstance", "Query"], init='Init', nobj=2, cfgs=b.cfgs,
                           data=list(b.valid)[:2], seeds=(), sizes=(2,), methods=list(b.methods)[:1]),
                {'simulate': 'num=%d' % (60 if quick else 600), 'depth': 5}, 2))
    # (c) option sets whose fit draws random numbers (KDE sample_size, selection_sample_size), seeded and unseeded models: with the
    #     global generator set to the same state before the fit, a refitted model and a fresh one are the same model
    if b.draw_cfgs:
        out.append((SJ.gen_cfg(b, 4, ["New", "Fit", "GlobalSeed", "Query"], init='Init', nobj=1, cfgs=b.draw_cfgs,
                               data=list(b.valid)[:2], seeds=(1,), sizes=(2,), methods=list(b.methods)[:1]), {}, 1))
    return out


def run(ctx):
    quick = ctx.tier == 'quick'
    ctx.rule = ('TLC enumerates every behaviour of Session over the lifecycle alphabet (New, Fit on every data kind incl. '
                'constant / NaN / empty / non-numeric, Query, Sample, GetInstance) up to the tier bound for every class '
                'binding and constructor option set; each is executed on real objects (constructor, get_instance by class '
                'and by name); a case is one (binding, construction form, behaviour); non-trivial = contains a Fit; '
                'distinct by content')
    ctx.assumptions = ['observable behaviour = class, to_dict, pdf/cdf/ppf (or density/likelihood) on a fixed probe set '
                       'and the sample of a re-seeded deep copy, compared with rtol 1e-9',
                       'vine fits are preceded by an allocator poison whose value cycles, so dependence on '
                       'uninitialised buffers shows as history dependence']
    mc = open(os.path.join(CFG, 'Session.c19.mc.cfg')).read()
    if quick:
        mc = mc.replace('MaxLen = 5', 'MaxLen = 4')
    r = ctx.tlc('Session.c19.mc', 'Session', mc, timeout=900, coverage=True)
    ctx.extra['design_action_coverage'] = SJ.require_coverage(r, ['New', 'Fit', 'FitRejected', 'Query', 'Sample', 'GetInstance'], ())
    want = []
    for b in B.all_bindings():
        if b.name == 'GaussianMultivariate3cond':
            continue
        variants = [{'newform': 'ctor'}]
        if not quick or b.kind in ('uni', 'vine'):
            variants += [{'newform': 'class'}, {'newform': 'name'}]
        for i, v in enumerate(variants):
            if b.kind == 'vine':
                v = dict(v, poison_cycle=(0.0, 0.625, float('nan')))
            pl = plans(b, quick)
            if i > 0:
                pl = pl[1:] if quick else pl     # other construction forms: prototype plan only in the quick tier
            want.append((b.name, v, pl))
    SJ.run_session_jobs(ctx, 'C19', want, 'harness.props.C19', ('Fit',))
    ctx.exhaustive = False


def replay(body):
    return SJ.replay(body)
