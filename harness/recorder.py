"""Out-of-tree recorder (pytest plugin): while foreign code - the repository's own end-to-end tests - runs, every outermost
`sample` call on a model object is logged with the fingerprints of the global NumPy generator and of the model's own generator
before and after the call (also on the exception path).  Active only when COPULAS_VERIF=1 and COPULAS_VERIF_TRACE=<file>;
nothing in /repo is modified: the wrappers are installed on the classes at pytest start-up and removed at the end.

    cd /repo && COPULAS_VERIF=1 COPULAS_VERIF_TRACE=/path/trace.json PYTHONPATH=/verif pytest -p harness.recorder tests/end-to-end
"""
import functools
import json
import os

from . import project as P

_EVENTS = []
_DEPTH = [0]
_ORIG = []


def _classes():
    import copulas.bivariate as cb
    import copulas.multivariate as cm
    import copulas.univariate as cu
    from copulas.bivariate.base import Bivariate
    from copulas.univariate.base import ScipyModel
    out = [cu.Univariate, ScipyModel, cu.GaussianKDE, Bivariate, cm.GaussianMultivariate, cm.VineCopula]
    return out


def _wrap(cls):
    orig = cls.__dict__.get('sample')
    if orig is None:
        return

    @functools.wraps(orig)
    def wrapper(self, *a, **k):
        if _DEPTH[0] > 0:
            return orig(self, *a, **k)
        _DEPTH[0] += 1
        g0 = P.fp_global()
        r0 = P.fp_model_rng(self)
        err = ''
        try:
            return orig(self, *a, **k)
        except BaseException as ex:
            err = type(ex).__name__
            raise
        finally:
            _DEPTH[0] -= 1
            _EVENTS.append({'cls': type(self).__name__, 'seeded': r0 is not None, 'g0': g0, 'g1': P.fp_global(), 'r0': r0 or '',
                            'r1': P.fp_model_rng(self) or '', 'err': err,
                            'test': os.environ.get('PYTEST_CURRENT_TEST', '').split(' ')[0]})
    _ORIG.append((cls, orig))
    cls.sample = wrapper


def pytest_configure(config):
    if os.environ.get('COPULAS_VERIF') != '1' or not os.environ.get('COPULAS_VERIF_TRACE'):
        return
    for c in _classes():
        _wrap(c)


def pytest_unconfigure(config):
    path = os.environ.get('COPULAS_VERIF_TRACE')
    if os.environ.get('COPULAS_VERIF') != '1' or not path:
        return
    for cls, orig in _ORIG:
        cls.sample = orig
    ids = {}

    def num(fp):
        return 0 if fp == '' else ids.setdefault(fp, len(ids) + 1)
    out = [{'cls': e['cls'], 'seeded': e['seeded'], 'g0': num(e['g0']), 'g1': num(e['g1']), 'r0': num(e['r0']), 'r1': num(e['r1']),
            'err': e['err'], 'test': e['test']} for e in _EVENTS]
    with open(path, 'w') as f:
        json.dump(out, f)
