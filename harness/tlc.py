"""Run TLC under a timeout and parse what it says.

All TLC use in the framework goes through `run`.  The result carries TLC's own
state counts, the names of violated invariants / properties, and the values the
specification printed with PrintT(<<"TAG", ...>>) (tags are parsed into Python
values by `parse_tla_value`).
"""
import json
import os
import re
import shutil
import subprocess
import tempfile
import time

VERIF = os.path.dirname(os.path.dirname(os.path.abspath(__file__)))
SPEC = os.path.join(VERIF, 'spec')
JAR = '/opt/veriftools/tla/tla2tools.jar:/opt/veriftools/tla/CommunityModules-deps.jar'


class TlcError(Exception):
    """TLC itself failed (parse error, evaluation error, timeout): machinery failure."""


class TlcResult(object):
    def __init__(self):
        self.generated = 0
        self.distinct = 0
        self.depth = 0
        self.violated = []      # names of violated invariants / properties
        self.printed = []       # parsed PrintT values (tuples -> lists)
        self.raw = ''
        self.wall = 0.0
        self.coverage = {}      # action name -> (distinct, total) when -coverage was on
        self.deadlock = False
        self.cmd = ''

    @property
    def ok(self):
        return not self.violated and not self.deadlock

    def tagged(self, tag):
        return [p[1:] for p in self.printed if isinstance(p, list) and p and p[0] == tag]


def workdir():
    """Per-process scratch directory under /verif/.work (removed by the caller)."""
    base = os.path.join(VERIF, '.work')
    os.makedirs(base, exist_ok=True)
    return tempfile.mkdtemp(prefix='w', dir=base)


# ----------------------------------------------------------------------------------------------
# TLA+ value parser (for PrintT output): numbers, strings, TRUE/FALSE, <<..>>, {..}, [a |-> ..],
# (k :> v @@ ...) functions, model values.
# ----------------------------------------------------------------------------------------------
_TOK = re.compile(r'''\s*(<<|>>|\[|\]|\{|\}|\(|\)|,|\|->|:>|@@|"(?:[^"\\]|\\.)*"|-?\d+|[A-Za-z_][A-Za-z0-9_!]*)''')


def _tokens(s):
    pos = 0
    out = []
    while pos < len(s):
        m = _TOK.match(s, pos)
        if not m:
            if s[pos:].strip() == '':
                break
            raise ValueError('cannot tokenise TLA+ value at: ' + s[pos:pos + 40])
        out.append(m.group(1))
        pos = m.end()
    return out


def _unescape(tok):
    body = tok[1:-1]
    return re.sub(r'\\(.)', lambda m: {'n': '\n', 't': '\t'}.get(m.group(1), m.group(1)), body)


def _parse(toks, i):
    t = toks[i]
    if t == '<<':
        i += 1
        out = []
        while toks[i] != '>>':
            v, i = _parse(toks, i)
            out.append(v)
            if toks[i] == ',':
                i += 1
        return out, i + 1
    if t == '{':
        i += 1
        out = []
        while toks[i] != '}':
            v, i = _parse(toks, i)
            out.append(v)
            if toks[i] == ',':
                i += 1
        return {'__set__': out}, i + 1
    if t == '[':
        i += 1
        out = {}
        while toks[i] != ']':
            k = toks[i]
            assert toks[i + 1] == '|->', toks[i:i + 3]
            v, i = _parse(toks, i + 2)
            out[k] = v
            if toks[i] == ',':
                i += 1
        return out, i + 1
    if t == '(':
        i += 1
        out = {}
        while toks[i] != ')':
            k, i = _parse(toks, i)
            assert toks[i] == ':>', toks[i:i + 3]
            v, i = _parse(toks, i + 1)
            out[k if not isinstance(k, list) else tuple(k)] = v
            if toks[i] == '@@':
                i += 1
        return out, i + 1
    if t.startswith('"'):
        return _unescape(t), i + 1
    if re.fullmatch(r'-?\d+', t):
        return int(t), i + 1
    if t == 'TRUE':
        return True, i + 1
    if t == 'FALSE':
        return False, i + 1
    return t, i + 1


def parse_tla_value(s):
    toks = _tokens(s)
    v, i = _parse(toks, 0)
    return v


_CHUNK = re.compile(r'<<\s*"[A-Z][A-Za-z0-9_]*"\s*,')


def _balanced_chunks(text):
    """Yield top-level <<...>> chunks from TLC stdout (PrintT output can span lines and,
    with several workers, interleave; chunks are recovered by bracket matching)."""
    i = 0
    n = len(text)
    while True:
        mm = _CHUNK.search(text, i)
        if not mm:
            return
        j = mm.start()
        depth = 0
        k = j
        instr = False
        while k < n:
            c = text[k]
            if instr:
                if c == '\\':
                    k += 1
                elif c == '"':
                    instr = False
            else:
                if c == '"':
                    instr = True
                elif text.startswith('<<', k):
                    depth += 1
                    k += 1
                elif text.startswith('>>', k):
                    depth -= 1
                    k += 1
                    if depth == 0:
                        break
            k += 1
        yield text[j:k + 1]
        i = k + 1


def run(module, cfg, workers=None, env=None, timeout=900, simulate=None, depth=None, seed=None,
        coverage=False, extra=(), deadlock=None, dfid=None, cwd=None, keep=False, stdeque=False):
    """Run TLC on spec/<module>.tla with configuration file `cfg` (path or text).

    Returns TlcResult; raises TlcError when TLC could not decide (parse/eval error, timeout).
    """
    wd = workdir()
    try:
        if '\n' in cfg or not os.path.exists(cfg):
            cfg_path = os.path.join(wd, module + '.cfg')
            with open(cfg_path, 'w') as f:
                f.write(cfg)
        else:
            cfg_path = os.path.abspath(cfg)
        if workers is None:
            workers = int(os.environ.get('VERIF_TLC_WORKERS', '16'))
        jopts = ['-XX:+UseParallelGC', '-Xss16m'] if workers > 2 else ['-XX:+UseSerialGC', '-Xss16m', '-Xmx3g']
        if stdeque:
            jopts.append('-Dtlc2.tool.queue.IStateQueue=StateDeque')
        cmd = ['java'] + jopts + ['-cp', JAR, 'tlc2.TLC', '-workers', str(workers),
                                  '-metadir', os.path.join(wd, 'states'), '-noGenerateSpecTE',
                                  '-config', cfg_path]
        if simulate is not None:
            cmd += ['-simulate', simulate]
        if depth is not None:
            cmd += ['-depth', str(depth)]
        if seed is not None:
            cmd += ['-seed', str(seed)]
        if coverage:
            cmd += ['-coverage', '1']
        if deadlock is False:
            cmd += ['-deadlock']   # -deadlock = do NOT check for deadlock
        if dfid is not None:
            cmd += ['-dfid', str(dfid)]
        cmd += list(extra)
        cmd.append(os.path.join(SPEC, module + '.tla'))
        e = dict(os.environ)
        e.pop('JAVA_TOOL_OPTIONS', None)
        if env:
            e.update({k: str(v) for k, v in env.items()})
        t0 = time.time()
        try:
            p = subprocess.run(cmd, cwd=cwd or SPEC, env=e, stdout=subprocess.PIPE,
                               stderr=subprocess.STDOUT, timeout=timeout)
        except subprocess.TimeoutExpired as ex:
            subprocess.run(['pkill', '-f', wd], check=False)
            raise TlcError('TLC timed out after %ss on %s' % (timeout, module))
        r = TlcResult()
        r.wall = time.time() - t0
        r.cmd = ' '.join(cmd)
        out = p.stdout.decode('utf-8', 'replace')
        r.raw = out
        m = None
        for m in re.finditer(r'(\d+) states generated, (\d+) distinct states found', out):
            pass
        if m:
            r.generated, r.distinct = int(m.group(1)), int(m.group(2))
        m = re.search(r'The depth of the complete state graph search is (\d+)', out)
        if m:
            r.depth = int(m.group(1))
        for m in re.finditer(r'Error: Invariant (\S+) is violated', out):
            r.violated.append(m.group(1))
        for m in re.finditer(r'Error: Action property (\S+) is violated', out):
            r.violated.append(m.group(1))
        for m in re.finditer(r'Error: Temporal properties were violated', out):
            r.violated.append('TemporalProperty')
        for m in re.finditer(r'Error: (Postcondition \S+|The postcondition)', out):
            r.violated.append('POSTCONDITION')
        if 'Assumption' in out and 'is false' in out:
            m = re.search(r'Assumption (.*) is false', out)
            r.violated.append('ASSUME ' + (m.group(1) if m else ''))
        if 'Error: Deadlock reached' in out:
            r.deadlock = True
        for chunk in _balanced_chunks(out):
            try:
                r.printed.append(parse_tla_value(chunk))
            except Exception:
                pass
        if coverage:
            for m in re.finditer(r'<(\w+) line \d+, col \d+ to line \d+, col \d+ of module (\w+)>: (\d+):(\d+)', out):
                r.coverage[m.group(1)] = (int(m.group(3)), int(m.group(4)))
        bad = None
        known = re.compile(r'Error: (Invariant \S+ is violated|Action property \S+ is violated|Temporal properties were violated|'
                           r'Deadlock reached|The behavior up to this point is|The following behavior constitutes a counter-example|'
                           r'Postcondition .* is false|The postcondition)')
        for line in out.splitlines():
            if line.startswith('Error:') and not known.match(line):
                bad = line
                break
        if bad:
            raise TlcError('TLC failure (%s) on %s:\n%s' % (bad, module, _errtext(out)))
        if 'Finished in' not in out and 'Finished computing' not in out and simulate is None:
            bad = 'TLC did not finish'
        for pat in (r'\*\*\* Parse Error', r'Semantic errors', r'Error: TLC threw an unexpected exception',
                    r'Error: Evaluating', r'Error: The configuration file', r'Error: TLC encountered',
                    r'Error: In evaluation', r'Error: Attempted to', r'Error: The first argument',
                    r'java\.lang\.\w*Error', r'Error: Parsing or semantic analysis failed'):
            if re.search(pat, out):
                bad = pat
                break
        if bad and not r.violated:
            raise TlcError('TLC failure (%s) on %s:\n%s' % (bad, module, _errtext(out)))
        if bad and r.violated:
            # an evaluation error next to a violation report is still a machinery failure
            if not re.search(r'is violated', out):
                raise TlcError('TLC failure (%s) on %s:\n%s' % (bad, module, _errtext(out)))
        return r
    finally:
        if not keep:
            shutil.rmtree(wd, ignore_errors=True)


def _errtext(out):
    i = out.find('Error:')
    return out[max(0, i - 200):i + 3500] if i >= 0 else out[-3000:]


def sany(module):
    p = subprocess.run(['java', '-cp', JAR, 'tla2sany.SANY', os.path.join(SPEC, module + '.tla')],
                       cwd=SPEC, stdout=subprocess.PIPE, stderr=subprocess.STDOUT)
    out = p.stdout.decode('utf-8', 'replace')
    ok = p.returncode == 0 and 'Semantic errors' not in out and 'Parse Error' not in out \
        and 'Fatal errors' not in out and 'Could not' not in out
    return ok, out


def dump_json(path, obj):
    with open(path, 'w') as f:
        json.dump(obj, f, separators=(',', ':'))
