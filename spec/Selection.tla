-------------------------------- MODULE Selection --------------------------------
(***************************************************************************)
(* C05: the three decision procedures behind "marginal model choice",         *)
(* enumerated completely.                                                     *)
(*                                                                            *)
(*  Select   - Univariate.fit / select_univariate: every candidate either      *)
(*             cannot be fitted (outcome 0) or has a Kolmogorov-Smirnov rank   *)
(*             (1 = closest); the result must be a fittable candidate of       *)
(*             minimal rank.                                                   *)
(*  Filter   - the candidate set for every parametric x bounded filter.        *)
(*  Dispatch - GaussianMultivariate: which distribution models each column for *)
(*             every configuration form, and the Gaussian fallback when the    *)
(*             configured distribution raises in fit.                          *)
(*  History  - two selections in a row through the same candidate list (the     *)
(*             same wrapper refitted, two wrappers / column copies sharing     *)
(*             one list): the second answer is a function of the second        *)
(*             outcome vector only - nothing a candidate did on earlier data   *)
(*             (failing, winning) may change the candidate set.                *)
(* Mode selects which family of cases the state machine walks through; each   *)
(* case is emitted with the specification's expected answer.                   *)
(***************************************************************************)
EXTENDS Integers, Sequences, FiniteSets, TLC

CONSTANTS Mode, MaxCand, MaxCols, MaxHist

(* ---- Select ---------------------------------------------------------------------------------- *)
Outcomes == 0..3
Fittable(o) == {i \in DOMAIN o : o[i] # 0}
MinRank(o) == CHOOSE r \in {o[i] : i \in Fittable(o)} : \A j \in Fittable(o) : r <= o[j]
Winners(o) == {i \in Fittable(o) : o[i] = MinRank(o)}
SelectCases == UNION {{o \in [1..n -> Outcomes] : Fittable(o) # {}} : n \in 1..MaxCand}

(* ---- History --------------------------------------------------------------------------------- *)
\* <<first, second>>: outcome vectors of the same candidates on two data sets; the first selection may fail altogether
HistoryCases == UNION {{<<a, b>> : a \in [1..n -> Outcomes], b \in {o \in [1..n -> Outcomes] : Fittable(o) # {}}} : n \in 1..MaxHist}
HistoryWinners(h) == Winners(h[2])

(* ---- Filter ---------------------------------------------------------------------------------- *)
Classes == {"GaussianKDE", "BetaUnivariate", "GammaUnivariate", "GaussianUnivariate", "LogLaplace",
            "StudentTUnivariate", "TruncatedGaussian", "UniformUnivariate"}
Param(c) == IF c = "GaussianKDE" THEN "NON_PARAMETRIC" ELSE "PARAMETRIC"
Bound(c) == CASE c \in {"BetaUnivariate", "TruncatedGaussian", "UniformUnivariate"} -> "BOUNDED"
              [] c \in {"GammaUnivariate", "LogLaplace"} -> "SEMI_BOUNDED"
              [] OTHER -> "UNBOUNDED"
FilterCases == {"any", "PARAMETRIC", "NON_PARAMETRIC"} \X {"any", "UNBOUNDED", "SEMI_BOUNDED", "BOUNDED"}
Filtered(f) == {c \in Classes : (f[1] = "any" \/ Param(c) = f[1]) /\ (f[2] = "any" \/ Bound(c) = f[2])}

(* ---- Dispatch -------------------------------------------------------------------------------- *)
\* configuration forms: one distribution for all columns (given as class / qualified name / instance),
\* the default, or a dict naming a subset of the columns
Forms == {"default", "class", "name", "instance", "dict"}
Cols(n) == 1..n
\* a dispatch case: number of columns, form, the set of columns the dict names (dict form only), and the set of
\* columns whose configured distribution raises in fit
DispatchCases ==
  UNION {{[n |-> n, form |-> f, named |-> nm, raises |-> rs] :
            f \in Forms, nm \in SUBSET Cols(n), rs \in SUBSET Cols(n)} : n \in 2..MaxCols}
ValidDispatch(c) == /\ (c.form # "dict" => c.named = {})
                    /\ (c.form = "dict" => c.named # {})
                    /\ (c.form = "default" => c.raises = {})              \* the default selection does not raise
                    /\ (c.form = "dict" => c.raises \subseteq c.named)
\* expected model of column i: "configured" (the user's distribution), "default" (the selecting Univariate), "gaussian" (fallback)
ExpectedModel(c, i) ==
  IF i \in c.raises THEN "gaussian"
  ELSE IF c.form = "default" \/ (c.form = "dict" /\ i \notin c.named) THEN "default" ELSE "configured"

(* ---- state machine ---------------------------------------------------------------------------- *)
VARIABLES case, answered
vars == <<case, answered>>
Init == /\ answered = FALSE
        /\ CASE Mode = "select" -> case \in SelectCases
             [] Mode = "history" -> case \in {h \in HistoryCases : h[1] # h[2]}
             [] Mode = "filter" -> case \in FilterCases
             [] Mode = "dispatch" -> case \in {c \in DispatchCases : ValidDispatch(c)}
Answer == ~answered /\ answered' = TRUE /\ UNCHANGED case
Next == Answer
Spec == Init /\ [][Next]_vars

\* the decision procedures are total and never pick an unfittable candidate
SelectTotal == Mode = "select" => Winners(case) # {} /\ \A i \in Winners(case) : case[i] # 0
\* the second selection of a history is judged exactly like a first one
HistoryFree == Mode = "history" => HistoryWinners(case) = Winners(case[2]) /\ HistoryWinners(case) # {}
DispatchTotal == Mode = "dispatch" => \A i \in Cols(case.n) : ExpectedModel(case, i) \in {"configured", "default", "gaussian"}
FallbackOnlyWhenRaising == Mode = "dispatch" => \A i \in Cols(case.n) : (ExpectedModel(case, i) = "gaussian") <=> (i \in case.raises)

Emit == ~answered =>
  PrintT(<<"CASE", CASE Mode = "select" -> [outcomes |-> case, winners |-> Winners(case)]
                     [] Mode = "history" -> [first |-> case[1], second |-> case[2], winners |-> HistoryWinners(case)]
                     [] Mode = "filter" -> [parametric |-> case[1], bounded |-> case[2], classes |-> Filtered(case)]
                     [] Mode = "dispatch" -> [n |-> case.n, form |-> case.form, named |-> case.named, raises |-> case.raises,
                                              expected |-> [i \in Cols(case.n) |-> ExpectedModel(case, i)]]>>)
=============================================================================
