"""Stub distributions used to realise every outcome vector the Selection specification enumerates."""
import numpy as np
from scipy.stats import norm

from copulas.univariate import GaussianUnivariate
from copulas.univariate.base import BoundedType, ParametricType, ScipyModel


class StubBase(ScipyModel):
    """A candidate whose Kolmogorov-Smirnov distance to N(0,1)-like data is controlled by RANK
    (1 = best, larger = worse); RANK 0 cannot be fitted."""
    PARAMETRIC = ParametricType.PARAMETRIC
    BOUNDED = BoundedType.UNBOUNDED
    MODEL_CLASS = norm
    RANK = 1

    def _fit_constant(self, X):
        self._params = {'loc': np.unique(X)[0], 'scale': 0}

    def _fit(self, X):
        if self.RANK == 0:
            raise ValueError('this candidate cannot be fitted')
        self._params = {'loc': float(np.mean(X)), 'scale': float(np.std(X))}

    def _is_constant(self):
        return self._params['scale'] == 0

    def _extract_constant(self):
        return self._params['loc']

    def cumulative_distribution(self, X):
        self.check_fit()
        return np.clip(norm.cdf(X, **self._params) + 0.15 * (self.RANK - 1), 0.0, 1.0)


def stub_class(position, rank):
    return type('Stub_p%d_r%d' % (position, rank), (StubBase,), {'RANK': rank, '__module__': __name__})


class PickyGaussian(GaussianUnivariate):
    """A user distribution that raises in fit for columns whose values are shifted beyond 500."""

    def _fit(self, X):
        if np.mean(X) > 500:
            raise RuntimeError('PickyGaussian refuses this column')
        GaussianUnivariate._fit(self, X)


class ShiftStub(StubBase):
    """cdf = true cdf shifted by SHIFT (up: the largest deviation is at the left limits of the empirical cdf; down: at the right
    limits) - candidates whose Kolmogorov-Smirnov distances differ by less than 1/n and sit on opposite sides."""
    SHIFT = 0.0

    def _fit(self, X):
        self._params = {'loc': float(np.mean(X)), 'scale': float(np.std(X))}

    def cumulative_distribution(self, X):
        self.check_fit()
        return np.clip(norm.cdf(X, **self._params) + self.SHIFT, 0.0, 1.0)


def shift_class(tag, shift):
    return type('Shift_%s' % tag, (ShiftStub,), {'SHIFT': shift, '__module__': __name__})
