-------------------------------- MODULE Session --------------------------------
(***************************************************************************)
(* The public API of Copulas as a state machine: a user program holds model *)
(* objects, serialised artefacts and the process-wide NumPy generator, and  *)
(* issues calls.  One action per public call; the linearisation point of a  *)
(* call is its return (or raise).                                           *)
(*                                                                          *)
(* Abstract values are *free terms* ("tokens"):                             *)
(*   - a generator state is  <<kind, seed, draw_1, ..., draw_k>>  - the     *)
(*     seed it was created from and the draws applied since;                *)
(*   - the observable behaviour of a fitted model (par[o]) is               *)
(*     <<cfg, data, fitgen>>  - what the properties say it may depend on;   *)
(*   - the result of a call (out) is a term over those.                     *)
(* The implementation refines this machine iff there is a function from     *)
(* tokens to concrete projections (harness/project.py): equal tokens must   *)
(* have equal projections.  SessionTrace.tla checks exactly that on logs of *)
(* the real code.  C14 (round trips), C15 (RNG discipline) and C19          *)
(* (lifecycle purity) are the invariants / action properties below.         *)
(***************************************************************************)
EXTENDS Integers, Sequences, FiniteSets, TLC

CONSTANTS
  Obj,          \* object handles (1..N)
  Data,         \* data-set ids
  ValidData,    \* subset of Data a fit accepts
  ConstData,    \* subset of ValidData that is constant (point mass)
  Seeds,        \* seeds a user may pass
  Sizes,        \* sample sizes
  Cfgs,         \* constructor option sets of the class bound to this run
  DrawCfgs,     \* subset of Cfgs whose fit draws from the global generator
  Arts,         \* artefact slots
  Alphabet,     \* names of the enabled actions
  MaxLen,       \* bound on behaviour length
  Rejects,      \* TRUE: the class validates its training data (multivariate)
  QueryDraws,   \* TRUE: Query("cdf") consumes the global generator (Gaussian copula, >= 3 columns)
  DevSeedIgnored, \* named deviation: Sample of a seeded model draws from the global generator
  Methods,      \* query methods the bound class offers
  FileCarriesState, \* TRUE: save/load (pickle) keeps configuration and generator; FALSE: only the dict form
  UnfittedDictOK  \* TRUE: to_dict of an unfitted model yields an "unfitted" artefact; FALSE: it raises NotFittedError

NONE == <<>>              \* "no token" for sequence-valued components
NoCfg == "nocfg"
NoData == "nodata"
NoArt == [kind |-> "none"]
VARIABLES life, cfg, par, rng, g, art, out, hist
vars == <<life, cfg, par, rng, g, art, out, hist>>

G0 == <<"G", 0>>                       \* the harness seeds the global generator with 0 at Reset
Adv(tok, sig) == Append(tok, sig)      \* generator states are free terms
Fresh(s) == <<"S", s>>

DatasetNames == {"age_income", "xyz", "bernoulli", "bimodal", "uniform", "normal", "degenerate", "exponential", "beta", "univariates"}

Init ==
  /\ life = [o \in Obj |-> "absent"]
  /\ cfg  = [o \in Obj |-> NoCfg]
  /\ par  = [o \in Obj |-> NONE]
  /\ rng  = [o \in Obj |-> NONE]
  /\ g    = G0
  /\ art  = [k \in Arts |-> NoArt]
  /\ out  = <<"init">>
  /\ hist = <<>>

\* Alternative initial condition: every object already constructed (and fitted when its data is
\* not NONE) - one "Setup" record stands for the New/Fit calls the harness performs, so that the
\* bounded depth is spent on the calls the property is about.
SetupChoices == [Obj -> [c : Cfgs, s : Seeds \cup {0}, d : (ValidData \ ConstData) \cup {NoData}]]
ParOfSetup(x) == IF x.d = NoData THEN NONE ELSE <<x.c, x.d, NONE>>
InitSetup ==
  \E su \in SetupChoices :
    /\ \A o \in Obj : su[o].c \notin DrawCfgs
    /\ life = [o \in Obj |-> IF su[o].d = NoData THEN "unfitted" ELSE "fitted"]
    /\ cfg  = [o \in Obj |-> su[o].c]
    /\ par  = [o \in Obj |-> ParOfSetup(su[o])]
    /\ rng  = [o \in Obj |-> IF su[o].s = 0 THEN NONE ELSE Fresh(su[o].s)]
    /\ g    = G0
    /\ art  = [k \in Arts |-> NoArt]
    /\ out  = <<"init">>
    /\ hist = <<[e |-> "Setup", su |-> su]>>

\* C14: one model (any data kind, also constant or none) exists; the other handles are free for restored copies
InitOne ==
  \E x \in [c : Cfgs \ DrawCfgs, s : Seeds \cup {0}, d : ValidData \cup {NoData}] :
    LET su == [o \in Obj |-> IF o = 1 THEN x ELSE [c |-> NoCfg, s |-> 0, d |-> "absent"]] IN
    /\ life = [o \in Obj |-> IF o # 1 THEN "absent" ELSE IF x.d = NoData THEN "unfitted" ELSE "fitted"]
    /\ cfg  = [o \in Obj |-> IF o = 1 THEN x.c ELSE NoCfg]
    /\ par  = [o \in Obj |-> IF o = 1 THEN ParOfSetup(x) ELSE NONE]
    /\ rng  = [o \in Obj |-> IF o = 1 /\ x.s # 0 THEN Fresh(x.s) ELSE NONE]
    /\ g    = G0
    /\ art  = [k \in Arts |-> NoArt]
    /\ out  = <<"init">>
    /\ hist = <<[e |-> "Setup", su |-> su]>>

Log(rec) == hist' = Append(hist, rec)
On(a) == a \in Alphabet /\ Len(hist) < MaxLen

(* ---- construction ------------------------------------------------------------------------- *)
New(o, c, s) ==                        \* s = 0: no seed
  /\ On("New") /\ life[o] = "absent"
  /\ \A p \in Obj : p < o => life[p] # "absent"        \* handles are allocated in order
  /\ life' = [life EXCEPT ![o] = "unfitted"]
  /\ cfg'  = [cfg  EXCEPT ![o] = c]
  /\ rng'  = [rng  EXCEPT ![o] = IF s = 0 THEN NONE ELSE Fresh(s)]
  /\ out'  = <<"new">>
  /\ UNCHANGED <<par, g, art>>
  /\ Log([e |-> "New", o |-> o, c |-> c, s |-> s])

SetSeed(o, s) ==
  /\ On("SetSeed") /\ life[o] # "absent"
  /\ rng' = [rng EXCEPT ![o] = IF s = 0 THEN NONE ELSE Fresh(s)]
  /\ out' = <<"setseed">>
  /\ UNCHANGED <<life, cfg, par, g, art>>
  /\ Log([e |-> "SetSeed", o |-> o, s |-> s])

GetInstance(o, o2) ==                  \* prototype o (fitted or not) -> new unfitted o2 configured like o
  /\ On("GetInstance") /\ life[o] # "absent" /\ life[o2] = "absent"
  /\ \A p \in Obj : p < o2 => life[p] # "absent"
  /\ life' = [life EXCEPT ![o2] = "unfitted"]
  /\ cfg'  = [cfg  EXCEPT ![o2] = cfg[o]]
  /\ par'  = [par  EXCEPT ![o2] = NONE]
  /\ rng'  = [rng  EXCEPT ![o2] = NONE]        \* the property does not speak about the seed; harness re-seeds explicitly
  /\ out'  = <<"instance">>
  /\ UNCHANGED <<g, art>>
  /\ Log([e |-> "GetInstance", o |-> o, o2 |-> o2])

(* ---- fitting ------------------------------------------------------------------------------ *)
\* C19: the state after fit depends only on the constructor arguments and the data (and, for the
\* configurations that resample while fitting, on the generator the fit consumed): nothing of the
\* previous par[o] survives.
Fit(o, d) ==
  /\ On("Fit") /\ life[o] # "absent" /\ d \in ValidData
  /\ LET draws == cfg[o] \in DrawCfgs /\ d \notin ConstData
         fr == IF draws THEN g ELSE NONE
     IN /\ par' = [par EXCEPT ![o] = <<cfg[o], d, fr>>]
        /\ g'   = IF draws THEN Adv(g, <<"fit", cfg[o], d>>) ELSE g
  /\ life' = [life EXCEPT ![o] = "fitted"]
  /\ out'  = <<"fit">>
  /\ UNCHANGED <<cfg, rng, art>>
  /\ Log([e |-> "Fit", o |-> o, d |-> d])

FitRejected(o, d) ==                   \* invalid training data: ValueError, state unchanged
  /\ On("FitRejected") /\ Rejects /\ life[o] # "absent" /\ d \in Data \ ValidData
  /\ out' = <<"error", "ValueError">>
  /\ UNCHANGED <<life, cfg, par, rng, g, art>>
  /\ Log([e |-> "Fit", o |-> o, d |-> d])

(* ---- queries ------------------------------------------------------------------------------ *)
Query(o, m) ==
  /\ On("Query") /\ life[o] = "fitted"
  \* a pure function of the fitted behaviour - except the randomised CDF integrator, whose value also depends on the generator
  /\ out' = IF QueryDraws /\ m = "cdf" THEN <<"value", m, par[o], g>> ELSE <<"value", m, par[o]>>
  /\ g'   = IF QueryDraws /\ m = "cdf" THEN Adv(g, <<"qry", par[o]>>) ELSE g
  /\ UNCHANGED <<life, cfg, par, rng, art>>
  /\ Log([e |-> "Query", o |-> o, m |-> m])

QueryUnfitted(o, m) ==
  /\ On("Query") /\ life[o] = "unfitted"
  /\ out' = <<"error", "NotFittedError">>
  /\ UNCHANGED <<life, cfg, par, rng, g, art>>
  /\ Log([e |-> "Query", o |-> o, m |-> m])

(* ---- sampling (C15) ----------------------------------------------------------------------- *)
Sample(o, n) ==
  /\ On("Sample") /\ life[o] = "fitted"
  /\ LET sig == <<"smp", par[o], n>> IN
     IF rng[o] # NONE /\ ~DevSeedIgnored
     THEN /\ out' = <<"sample", par[o], rng[o], n>>
          /\ rng' = [rng EXCEPT ![o] = Adv(@, sig)]
          /\ g'   = g                                   \* global generator untouched
     ELSE /\ out' = <<"sample", par[o], g, n>>
          /\ g'   = Adv(g, sig)
          /\ rng' = rng
  /\ UNCHANGED <<life, cfg, par, art>>
  /\ Log([e |-> "Sample", o |-> o, n |-> n])

SampleUnfitted(o, n) ==
  /\ On("Sample") /\ life[o] = "unfitted"
  /\ out' = <<"error", "NotFittedError">>
  /\ UNCHANGED <<life, cfg, par, rng, g, art>>      \* even on the raise path the generators are as before
  /\ Log([e |-> "Sample", o |-> o, n |-> n])

SampleRaises(o) ==                     \* a sampling call that fails inside its body (bad argument)
  /\ On("SampleRaises") /\ life[o] = "fitted"
  /\ out' = <<"error", "any">>
  /\ UNCHANGED <<life, cfg, par, rng, g, art>>
  /\ Log([e |-> "SampleRaises", o |-> o])

GlobalSeed(s) ==
  /\ On("GlobalSeed") /\ s # 0
  /\ g' = <<"G", s>>
  /\ out' = <<"gseed">>
  /\ UNCHANGED <<life, cfg, par, rng, art>>
  /\ Log([e |-> "GlobalSeed", s |-> s])

GlobalDraw ==
  /\ On("GlobalDraw")
  /\ out' = <<"gdraw", g>>
  /\ g' = Adv(g, <<"gd">>)
  /\ UNCHANGED <<life, cfg, par, rng, art>>
  /\ Log([e |-> "GlobalDraw"])

\* C15: the bundled dataset generators are functions of (name, size, seed) and scope their seeding
Dataset(nm, n, s) ==
  /\ On("Dataset")
  /\ out' = <<"dataset", nm, n, s>>
  /\ UNCHANGED <<life, cfg, par, rng, g, art>>
  /\ Log([e |-> "Dataset", nm |-> nm, n |-> n, s |-> s])

(* ---- serialisation (C14) ------------------------------------------------------------------ *)
\* kinds: "dict" (to_dict), "json" (dict through json.dumps/loads), "file" (save/load)
\* An artefact carries the observable behaviour unchanged.  save/load of pickled classes also
\* carries configuration and generator; dict forms carry neither.
ToDict(o, k) ==
  /\ On("ToDict") /\ life[o] = "fitted"
  /\ art' = [art EXCEPT ![k] = [kind |-> "dict", par |-> par[o], life |-> "fitted"]]
  /\ out' = <<"dict", par[o]>>
  /\ UNCHANGED <<life, cfg, par, rng, g>>
  /\ Log([e |-> "ToDict", o |-> o, k |-> k])

ToDictUnfitted(o, k) ==
  /\ On("ToDict") /\ life[o] = "unfitted"
  /\ IF ~UnfittedDictOK
     THEN /\ out' = <<"error", "NotFittedError">> /\ art' = art
     ELSE /\ out' = <<"dict", NONE>>
          /\ art' = [art EXCEPT ![k] = [kind |-> "dict", par |-> NONE, life |-> "unfitted"]]
  /\ UNCHANGED <<life, cfg, par, rng, g>>
  /\ Log([e |-> "ToDict", o |-> o, k |-> k])

JsonTrip(k) ==
  /\ On("JsonTrip") /\ art[k].kind \in {"dict", "json"}
  /\ art' = [art EXCEPT ![k].kind = "json"]
  /\ out' = <<"json">>
  /\ UNCHANGED <<life, cfg, par, rng, g>>
  /\ Log([e |-> "JsonTrip", k |-> k])

FromDict(k, o2, via) ==                \* via: "class" (the model's own class) or "generic" (base-class entry point)
  /\ On("FromDict") /\ art[k].kind \in {"dict", "json"} /\ life[o2] = "absent"
  /\ \A p \in Obj : p < o2 => life[p] # "absent"
  /\ life' = [life EXCEPT ![o2] = art[k].life]
  /\ par'  = [par  EXCEPT ![o2] = art[k].par]
  /\ cfg'  = [cfg  EXCEPT ![o2] = "restored"]
  /\ rng'  = [rng  EXCEPT ![o2] = NONE]
  /\ out'  = <<"restored">>
  /\ UNCHANGED <<g, art>>
  /\ Log([e |-> "FromDict", k |-> k, o2 |-> o2, via |-> via])

Save(o, k) ==
  /\ On("Save") /\ life[o] # "absent"
  /\ art' = [art EXCEPT ![k] = [kind |-> "file", par |-> par[o], life |-> life[o], cfg |-> cfg[o], rng |-> rng[o]]]
  /\ out' = <<"saved">>
  /\ UNCHANGED <<life, cfg, par, rng, g>>
  /\ Log([e |-> "Save", o |-> o, k |-> k])

Load(k, o2) ==
  /\ On("Load") /\ art[k].kind = "file" /\ life[o2] = "absent"
  /\ \A p \in Obj : p < o2 => life[p] # "absent"
  /\ life' = [life EXCEPT ![o2] = art[k].life]
  /\ par'  = [par  EXCEPT ![o2] = art[k].par]
  /\ cfg'  = [cfg  EXCEPT ![o2] = IF FileCarriesState THEN art[k].cfg ELSE "restored"]
  /\ rng'  = [rng  EXCEPT ![o2] = IF FileCarriesState THEN art[k].rng ELSE NONE]
  /\ out'  = <<"restored">>
  /\ UNCHANGED <<g, art>>
  /\ Log([e |-> "Load", k |-> k, o2 |-> o2])

Next ==
  \/ \E o \in Obj, c \in Cfgs, s \in Seeds \cup {0} : New(o, c, s)
  \/ \E o \in Obj, s \in Seeds \cup {0} : SetSeed(o, s)
  \/ \E o, o2 \in Obj : GetInstance(o, o2)
  \/ \E o \in Obj, d \in Data : Fit(o, d) \/ FitRejected(o, d)
  \/ \E o \in Obj, m \in Methods : Query(o, m) \/ QueryUnfitted(o, m)
  \/ \E o \in Obj, n \in Sizes : Sample(o, n) \/ SampleUnfitted(o, n)
  \/ \E o \in Obj : SampleRaises(o)
  \/ \E s \in Seeds : GlobalSeed(s)
  \/ GlobalDraw
  \/ \E nm \in DatasetNames, n \in Sizes, s \in Seeds : Dataset(nm, n, s)
  \/ \E o \in Obj, k \in Arts : ToDict(o, k) \/ ToDictUnfitted(o, k) \/ Save(o, k)
  \/ \E k \in Arts : JsonTrip(k)
  \/ \E k \in Arts, o2 \in Obj, via \in {"class", "generic"} : FromDict(k, o2, via)
  \/ \E k \in Arts, o2 \in Obj : Load(k, o2)

Spec == Init /\ [][Next]_vars
SpecSetup == InitSetup /\ [][Next]_vars

(* ---- properties --------------------------------------------------------------------------- *)
Last == hist[Len(hist)]
LastIs(e) == Len(hist) > 0 /\ Last.e = e

TypeOK ==
  /\ \A o \in Obj : life[o] \in {"absent", "unfitted", "fitted"}
  /\ \A o \in Obj : (life[o] = "fitted") <=> (par[o] # NONE)
  /\ Len(g) >= 2 /\ g[1] = "G"
  /\ \A o \in Obj : rng[o] # NONE => rng[o][1] = "S"

\* C15 isolation: only the listed steps may move the global generator.
MayMoveGlobal(h) ==
  \/ h.e \in {"GlobalSeed", "GlobalDraw"}
  \/ h.e = "Sample" /\ rng[h.o] = NONE /\ life[h.o] = "fitted"
  \/ h.e = "Fit" /\ cfg[h.o] \in DrawCfgs
  \/ h.e = "Query" /\ QueryDraws /\ h.m = "cdf"
GlobalIsolation == [][g' # g => MayMoveGlobal(hist'[Len(hist')])]_vars

\* C15: a successful seeded sample advances exactly the model's own stream
SeededSampleKeepsGlobal ==
  [][(LET h == hist'[Len(hist')] IN h.e = "Sample" /\ life[h.o] = "fitted" /\ rng[h.o] # NONE)
       => (g' = g /\ rng'[hist'[Len(hist')].o] # rng[hist'[Len(hist')].o])]_vars

\* C15: determinism - the sample is a term over (behaviour, stream, n) only
SampleDeterminism ==
  LastIs("Sample") /\ out[1] = "sample" =>
     out[2] = par[Last.o] /\ out[4] = Last.n

\* C15: errors leave every generator as it was
ErrorsKeepGenerators == [][out'[1] = "error" => (g' = g /\ rng' = rng)]_vars

\* C19: fit is pure
FitIsPure ==
  LastIs("Fit") /\ out = <<"fit">> =>
     /\ par[Last.o][1] = cfg[Last.o] /\ par[Last.o][2] = Last.d
     /\ (par[Last.o][3] # NONE => cfg[Last.o] \in DrawCfgs)
RejectedFitKeepsState == [][out' = <<"error", "ValueError">> => UNCHANGED <<life, cfg, par, rng, g, art>>]_vars
UnfittedRaises ==
  [][(LET h == hist'[Len(hist')] IN h.e \in {"Query", "Sample"} /\ life[h.o] = "unfitted")
       => out' = <<"error", "NotFittedError">>]_vars

\* C14: a restored object has exactly the behaviour that was serialised
RoundTripPreservesPar ==
  (LastIs("FromDict") \/ LastIs("Load")) =>
     /\ par[Last.o2] = art[Last.k].par /\ life[Last.o2] = art[Last.k].life
ArtefactsAreSnapshots ==          \* artefacts never change after they are written, except by JsonTrip's re-encoding
  [][\A k \in Arts : art[k] # NoArt /\ art'[k] # art[k] =>
        hist'[Len(hist')].e \in {"ToDict", "Save", "JsonTrip"}]_vars

\* behaviour emission (.gen configurations): every maximal behaviour is printed once
Emit == Len(hist) = MaxLen => PrintT(<<"BEH", hist>>)
=============================================================================
