"""Regenerates the findings and seeded-changes tables of DESIGN.md (between the HTML comment markers) from known_findings.json and seeded/*/meta.json."""
import json, os, re
HERE = os.path.dirname(os.path.abspath(__file__))
def findings():
    F = json.load(open(os.path.join(HERE, 'known_findings.json')))['findings']
    rows = ['| id | property | status | commit | what failed |', '|---|---|---|---|---|']
    for f in sorted(F, key=lambda f: int(f['id'][1:])):
        what = f['what']
        if what.startswith('fixed: '):
            what = what.split(' ', 3)[3]
        rows.append('| %s | %s | %s | %s | %s |' % (f['id'], f['property'], f['status'], f.get('commit') or '-', what.replace('|', '/')))
    return '\n'.join(rows)
def seeds():
    rows = ['| seed | property | needs | detection |', '|---|---|---|---|']
    for d in sorted(os.listdir(os.path.join(HERE, 'seeded'))):
        m = json.load(open(os.path.join(HERE, 'seeded', d, 'meta.json')))
        rows.append('| %s | %s | %s | %s |' % (d, m['property'], ' '.join(str(m.get('needs', '')).split())[:300].replace('|', '/'),
                                             str(m.get('detection', '(being processed)')).replace('|', '/')[:330]))
    return '\n'.join(rows)
def checks():
    M = json.load(open(os.path.join(HERE, 'MANIFEST.json')))
    rows = ['| id | level | deciding technique (MANIFEST) | quick tier as measured (evidence/) |', '|---|---|---|---|']
    for c in M['checks']:
        ev = {}
        try:
            ev = json.load(open(os.path.join(HERE, c['evidence_file'])))
        except Exception:
            pass
        cov = ev.get('coverage', {})
        meas = 'TLC states %s, traces/cases judged %s, executed cases %s (distinct non-trivial %s), %s s' % (
            cov.get('states', '?'), cov.get('traces_validated_against_impl', '?'), cov.get('evaluations', '?'), cov.get('distinct_nontrivial', '?'), ev.get('wall_s', '?'))
        rows.append('| %s | %s | %s | %s |' % (c['property_id'], c['level_claimed']['category'], c.get('technique', '').replace('|', '/'), meas))
    return '\n'.join(rows)
p = os.path.join(HERE, 'DESIGN.md')
s = open(p).read()
for tag, fn in (('findings-table', findings), ('seeds-table', seeds), ('checks-table', checks)):
    s = re.sub(r'<!-- %s -->.*?<!-- /%s -->' % (tag, tag), lambda m: '<!-- %s -->\n%s\n<!-- /%s -->' % (tag, fn(), tag), s, flags=re.S)
open(p, 'w').write(s)
print('tables regenerated')
