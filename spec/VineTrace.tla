-------------------------------- MODULE VineTrace --------------------------------
(***************************************************************************)
(* Code -> spec for C16: structures of really fitted vines (from random      *)
(* tables and from tree builders driven with TLC-chosen dependence           *)
(* orderings) are read from a log; every C16 clause of module Vine is         *)
(* evaluated on each of them.  The verdict is total: one entry per vine and   *)
(* failing clause.                                                            *)
(*                                                                            *)
(* log record: [n, vtype, trunc, trees: <<tree>>, w: matrix | <<>>,           *)
(*              admissible: <<<<BOOLEAN>>>>, err]                              *)
(*   tree = sequence of edges [L, R, D: sequence, pa: <<i, j>>]               *)
(***************************************************************************)
EXTENDS Vine, Json, IOUtils, TLCExt

VLog == JsonDeserialize(IOEnv.TRACE_FILE)

ToEdge(x) == [L |-> x.L, R |-> x.R, D |-> {x.D[i] : i \in DOMAIN x.D}, pa |-> <<x.pa[1], x.pa[2]>>]
ToTrees(r) == [k \in DOMAIN r.trees |-> [i \in DOMAIN r.trees[k] |-> ToEdge(r.trees[k][i])]]

\* indices must be usable before the structural clauses are evaluated (otherwise TLC would fail, not judge)
WellFormed(trs, n) ==
  \A k \in DOMAIN trs : \A i \in DOMAIN trs[k] :
    /\ VarsOf(trs[k][i]) \subseteq 0..(n - 1)
    /\ (k = 1 => trs[k][i].pa = <<0, 0>>)
    /\ (k >= 2 => trs[k][i].pa[1] \in DOMAIN trs[k-1] /\ trs[k][i].pa[2] \in DOMAIN trs[k-1])

Problems(r) ==
  IF r.err # "" THEN <<"fit-raised">>
  ELSE LET trs == ToTrees(r) IN
  IF ~WellFormed(trs, r.n) THEN <<"malformed-edge">>
  ELSE
  (IF ~DepthOK(trs, r.n, r.trunc) THEN <<"number-of-trees">> ELSE <<>>) \o
  (IF ~EdgeCountOK(trs, r.n) THEN <<"edge-count">>
   ELSE (IF ~SpanningOK(trs, r.n) THEN <<"not-a-spanning-tree">> ELSE <<>>) \o
        (IF ~ProximityOK(trs) THEN <<"proximity">> ELSE <<>>) \o
        (IF ~SetsOK(trs) THEN <<"conditioned-or-conditioning-set">> ELSE <<>>) \o
        (IF ~NoPairTwice(trs) THEN <<"pair-conditioned-twice">> ELSE <<>>) \o
        (IF r.vtype = "center" /\ ~StarOK(trs, r.n) THEN <<"not-a-star">> ELSE <<>>) \o
        (IF r.vtype = "direct" /\ ~PathOK(trs, r.n) THEN <<"not-a-path">> ELSE <<>>) \o
        (IF r.vtype = "regular" /\ r.w # <<>> /\ Len(trs) >= 1 /\ Len(trs[1]) = r.n - 1 /\ SpanningOK(<<trs[1]>>, r.n)
              /\ ~MaxSpanningOK(trs[1], r.n, r.w) THEN <<"first-tree-not-maximum-spanning">> ELSE <<>>)) \o
  (IF \E k \in DOMAIN r.admissible : \E i \in DOMAIN r.admissible[k] : ~r.admissible[k][i]
   THEN <<"inadmissible-family-or-theta">> ELSE <<>>)

TraceChecked == PrintT(<<"VERDICT", SelectSeq([i \in 1..Len(VLog) |-> <<i, Problems(VLog[i])>>], LAMBDA p : p[2] # <<>>)>>)
=============================================================================
