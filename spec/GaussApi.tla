--------------------------------- MODULE GaussApi ---------------------------------
(***************************************************************************)
(* C01: the space of Gaussian-copula synthetic-data requests and the schema   *)
(* the answer must have.                                                      *)
(*                                                                            *)
(* A request is a training-table layout (number of columns, the kind of each  *)
(* column, the dependence pattern of the generating Gaussian copula), a       *)
(* marginal configuration form, and a number of rows to sample.  The machine   *)
(* has two steps - Fit, Sample - and the invariants say what the sampled      *)
(* table looks like: exactly n rows, the training columns in training order,  *)
(* no missing value, constant training columns reproduced exactly.  The       *)
(* distributional clauses (marginals, rank dependence, recovery) are judged   *)
(* on the real samples by the Acceptance law module.  TLC enumerates the      *)
(* requests (or samples them with -simulate when the product is large).       *)
(***************************************************************************)
EXTENDS Integers, Sequences, FiniteSets, TLC
CONSTANTS MinCols, MaxCols, Kinds, Patterns, Forms, RowCounts

VARIABLES layout, pattern, form, nrows, phase, outRows, outCols, outConst
vars == <<layout, pattern, form, nrows, phase, outRows, outCols, outConst>>

NonConst(l) == {i \in DOMAIN l : l[i] # "constant"}

\* the table is described column by column (so that random walks of TLC's simulator reach wide tables without enumerating
\* all layouts first), then the request is completed and the two calls are made
Init == /\ layout = <<>> /\ pattern \in Patterns /\ form \in Forms /\ nrows \in RowCounts
        /\ phase = "describe" /\ outRows = 0 /\ outCols = <<>> /\ outConst = {}
AddColumn == /\ phase = "describe" /\ Len(layout) < MaxCols
             /\ \E kd \in Kinds : layout' = Append(layout, kd)
             /\ UNCHANGED <<pattern, form, nrows, phase, outRows, outCols, outConst>>
Ready == /\ phase = "describe" /\ Len(layout) >= MinCols /\ Cardinality(NonConst(layout)) >= 1
         /\ phase' = "new" /\ UNCHANGED <<layout, pattern, form, nrows, outRows, outCols, outConst>>
Fit == phase = "new" /\ phase' = "fitted" /\ UNCHANGED <<layout, pattern, form, nrows, outRows, outCols, outConst>>
Sample == /\ phase = "fitted" /\ phase' = "sampled"
          /\ outRows' = nrows
          /\ outCols' = [i \in DOMAIN layout |-> i]                     \* the training columns, in training order
          /\ outConst' = {i \in DOMAIN layout : layout[i] = "constant"}    \* reproduced exactly
          /\ UNCHANGED <<layout, pattern, form, nrows>>
Next == AddColumn \/ Ready \/ Fit \/ Sample
Spec == Init /\ [][Next]_vars

SchemaOK == phase = "sampled" => /\ outRows = nrows /\ Len(outCols) = Len(layout)
                                 /\ \A i \in DOMAIN layout : outCols[i] = i
                                 /\ outConst = (DOMAIN layout) \ NonConst(layout)
Emit == phase = "sampled" => PrintT(<<"CASE", [layout |-> layout, pattern |-> pattern, form |-> form, n |-> nrows,
                                                 cols |-> outCols, const |-> outConst]>>)
=============================================================================
